"""C15 - table metadata stays well-formed through every history."""
from __future__ import annotations

import ast
from typing import Dict, List, Optional, Set, Tuple

from ..cfg import NORMAL, Node
from ..core import Ctx
from ..flow import ALL, find_path, names_in
from ..model import AnalysisError, FunctionInfo, dotted, norm_text
from .common import UNKNOWN, walk_all, facts_at, judged_in_callers, resolve_value, concrete_eval, eval3, edge_target, explore, kwarg, reachable_from

EXPLANATION = (
    "Static analysis of the metadata mutators: (R1) sibling agreement of the three snapshot-removal sites (expire mutator, "
    "retention, delete_snapshot): each repoints parents with the list as it was BEFORE the removal and the reduced list that "
    "ends up in metadata.snapshots, filters snapshot_log by the kept ids, and can never drop the current snapshot; (R2) def-use "
    "census of sequence numbers: the only definitions are base.last_sequence_number + 1 and max(base, seq); (R3) carried-over "
    "manifest entries take snapshot id / sequence number from the DataFile, added entries from the commit; the reader restores "
    "both; (R4) one snapshot id and one sequence number per commit reach every writer; (R5) the mutator cannot remove the "
    "committing snapshot; (R6) metadata log: entry = superseded file, trimmed keeping the newest, applied before the metadata "
    "write; (R7) the delete filter compares paths for equality with BOTH operands under the same leading-slash normalisation."
    ' Also: (R0) parent repointing walks each survivor independently (no state shared between survivors).'
    " (R8) a file delete keeps everything else: every existing manifest with surviving files reaches final_manifests.append (path query with the 'no survivors' edge as the only bypass); R6 also ties the trim bound to the properties of the metadata being written."
    ' (R9) snapshot_log producers keep commit order (C09.R10); (R10) every create_manifest_file(existing_files=X) site carries DataFiles whose added_snapshot_id / sequence_number come from their source; (R11) who-may-delete census (C09.R3).'
    ' R1 also decides, by scenario, that retention re-adds the current snapshot whenever it is missing from the kept set.'
    ' (R15) a delete reads EVERY manifest of the base snapshot: a manifest is carried over unchanged only after read_manifest_file in the same iteration.'
    ' (R16) numbers (sequence 0, schema id 0, cutoffs) are never truth-tested; (R17) itertools.groupby only over input sorted by the same key; R1 evaluates the expire predicate by scenario (current kept; a snapshot AT the cutoff kept), also through id sets.'
    ' R0 also walks a parent CYCLE by scenario (the repointed parent is a survivor or None, never a removed id); R6: a metadata-log bound of 1 trims the log.'
    ' (R18) no memoising decorator (cached_property / lru_cache) anywhere - an index remembered on a metadata object outlives the list it was built from (C02.R6).')
NOT_DECIDED = ("the invariants over operation histories (parents are true ancestors, log order, retention with out-of-order "
               "timestamps) at run time")

REPOINT = "repoint_parents_to_surviving_ancestors"


def r0(ctx: Ctx) -> None:
    ctx.rule("C15.R0", "parent repointing walks each survivor independently: every variable mutated inside the per-survivor loop "
             "is initialised inside that iteration; the walk follows parent_of until it reaches a kept id, None or -1", 3)
    f = ctx.fn("snapshot_manager.repoint_parents_to_surviving_ancestors")
    g = ctx.cfg(f)
    rd = ctx.rd(f)
    loops = [n for n in g.nodes if n.kind == "loop" and isinstance(n.ast, ast.For)]
    kept_param = f.params[1].name if len(f.params) > 1 else "kept"
    outer = [l for l in loops if norm_text(l.ast.iter) == kept_param]  # type: ignore[union-attr]
    if not outer:
        raise AnalysisError("per-survivor loop vanished from repoint_parents_to_surviving_ancestors")
    ol = outer[0]
    inside = [n for n in g.nodes if any(fr.kind == "loop" and fr.node is ol.ast for fr in n.frames) and n.id in g.reachable()]
    from ..flow import node_defs
    mutated = set()
    for n in inside:
        for d in node_defs(n):
            v = d.lstrip("~")
            if "." in v:
                continue  # snapshot.parent_snapshot_id: attribute of the loop variable
            mutated.add(v)
    for v in sorted(mutated):
        uses = [n for n in inside if n.ast is not None and v in names_in(n.ast if n.kind != "call" else n.ast)]
        leak = []
        for u in uses:
            for d in rd.reaching(u.id, v):
                dn = g.nodes[d]
                if not any(fr.kind == "loop" and fr.node is ol.ast for fr in dn.frames) and dn.id != ol.id:
                    leak.append((u, dn))
        ctx.ob("C15.R0", f, f"`{v}` carries no state from one survivor to the next", leak[0][0] if leak else ol, not leak,
               (f"a definition outside the per-survivor loop (line {leak[0][1].lineno}) reaches a use inside it: e.g. a cycle-guard "
                f"set shared by all survivors makes a second survivor's walk stop at an ancestor the first one already visited "
                f"(its parent becomes None instead of the nearest surviving ancestor)") if leak else "initialised per iteration",
               text=v)
    wh = [n for n in g.nodes if n.kind == "loop_head" and any(fr.kind == "loop" and fr.node is ol.ast for fr in n.frames)]
    tests = [b for b in g.nodes if b.kind == "branch" and any(fr.kind == "loop" and fr.node is ol.ast for fr in b.frames)]
    # decided by scenario: from the head of the walk loop, is the step `<walk> = <ancestry>.get(<walk>)` reached?
    steps = [n for n in g.nodes if n.kind == "stmt" and isinstance(n.ast, ast.Assign) and len(n.ast.targets) == 1
             and isinstance(n.ast.targets[0], ast.Name) and isinstance(n.ast.value, ast.Call)
             and isinstance(n.ast.value.func, ast.Attribute) and n.ast.value.func.attr == "get"
             and n.ast.value.args and isinstance(n.ast.value.args[0], ast.Name) and n.ast.value.args[0].id == n.ast.targets[0].id
             and any(fr.kind == "loop" and fr.node is ol.ast for fr in n.frames)]
    ok = False
    detail = "walk step `<v> = <parent map>.get(<v>)` not found"
    if wh and steps:
        wv = steps[0].ast.targets[0].id  # type: ignore[union-attr]
        kept_vars = {norm_text(x.comparators[0]) for b in tests if b.ast is not None for x in ast.walk(b.ast)
                     if isinstance(x, ast.Compare) and len(x.ops) == 1 and isinstance(x.ops[0], (ast.In, ast.NotIn))
                     and isinstance(x.left, ast.Name) and x.left.id == wv}
        outcomes = {}
        for label, val, kept_val in (("None", None, (7,)), ("-1", -1, (7,)), ("a kept id", 5, (5,)), ("a removed id", 5, (7,))):
            env = {wv: val}
            env.update({k: kept_val for k in kept_vars})
            res = explore(ctx, f, [wh[0].id], env=env, stop=[s_.id for s_ in steps] + [ol.id])
            outcomes[label] = any(end in {s_.id for s_ in steps} for end, _st, _as in res)
        ok = (not outcomes["None"]) and (not outcomes["-1"]) and (not outcomes["a kept id"]) and outcomes["a removed id"]
        detail = f"walk variable `{wv}`; continues for: " + ", ".join(f"{k} -> {v}" for k, v in outcomes.items())
    ctx.ob("C15.R0", f, "walk continues while the parent is a removed snapshot", wh[0] if wh else None, ok,
           detail + " (expected: only for a removed id)")
    src = [n for n in g.nodes if n.kind == "stmt" and isinstance(n.ast, ast.Assign) and isinstance(n.ast.value, ast.DictComp)
           and "parent_snapshot_id" in norm_text(n.ast.value)]
    mapname = norm_text(src[0].ast.targets[0]) if src else "?"  # type: ignore[union-attr]
    step = [n for n in inside if n.kind == "stmt" and isinstance(n.ast, ast.Assign) and mapname in norm_text(n.ast.value)]
    ok = bool(step) and bool(src) and f.params[0].name in norm_text(src[0].ast.value)  # type: ignore[union-attr]
    ctx.ob("C15.R0", f, "ancestry is read from the PRE-removal list", src[0] if src else None, ok,
           "parent_of is built from the first argument (all snapshots before removal)")
    fin = [n for n in inside if n.kind == "stmt" and isinstance(n.ast, ast.Assign) and norm_text(n.ast.targets[0]).endswith(".parent_snapshot_id")]
    ctx.ob("C15.R0", f, "the survivor's parent is set to the walk's result", fin[0] if fin else None,
           bool(fin) and (isinstance(fin[0].ast.value, ast.Name) or id(fin[0].ast.value) in g.inlined_calls), "")  # type: ignore[union-attr]
    # corrupt lineage (a cycle among removed snapshots): the walk stops AND the link is dropped - the survivor must not be left
    # pointing at a removed snapshot.  Scenario: the walk stands on a removed id it has already visited.
    if wh and steps and fin:
        wv = steps[0].ast.targets[0].id  # type: ignore[union-attr]
        seen_vars = {norm_text(c.ast.func.value) for c in g.calls() if isinstance(c.ast, ast.Call) and isinstance(c.ast.func, ast.Attribute)
                     and c.ast.func.attr == "add" and c.ast.args and isinstance(c.ast.args[0], ast.Name) and c.ast.args[0].id == wv}
        if seen_vars:
            env = {wv: 5}
            env.update({k: (7,) for k in kept_vars})
            env.update({k: frozenset({5}) for k in seen_vars})
            res = explore(ctx, f, [wh[0].id], env=env, stop=[x.id for x in fin] + [ol.id])
            vals = set()
            for end, st_, _as in res:
                if end in {x.id for x in fin}:
                    scen = dict(env)
                    scen.update({k: v for k, v in st_.items() if isinstance(k, str) or (isinstance(k, tuple) and k[0] == "ret")})  # type: ignore[misc]
                    vals.add(concrete_eval(ctx, f, g.nodes[end].ast.value, scen, end))  # type: ignore[union-attr]
            if vals and UNKNOWN not in vals and not any(hasattr(v, "key") for v in vals):
                ctx.ob("C15.R0", f, "a cycle among removed snapshots drops the link", fin[0], vals == {None},
                       f"walk standing on an already visited removed id stores parent = {sorted(map(repr, vals))} (expected None: every parent "
                       "link names a retained true ancestor or nothing)", text="cycle")


def check(ctx: Ctx) -> None:
    r0(ctx)
    r1(ctx)
    r2(ctx)
    r3(ctx)
    r4(ctx)
    r5(ctx)
    r6(ctx)
    r7(ctx)
    r8(ctx)
    # "the snapshot log lists only retained snapshots in commit order"
    from .c09 import r10_log_order
    r10_log_order(ctx, "C15.R9")
    carried_keep_provenance(ctx)
    # "the metadata log names existing superseded versions": nobody but the sanctioned owners deletes a metadata file
    from .c09 import r3 as c09_r3
    ctx.shared(c09_r3, "C09.R3", "C15.R11", "a second deleter of metadata versions removes files the metadata log still names")
    # a table re-initialised over itself (recovery blind to page 2 of the listing) loses its whole history and restarts the numbering
    from .c20 import r10_listing_exhaustive
    r10_listing_exhaustive(ctx, "C15.R12")
    # two commits validated against one base (an ETag that belongs to an unvalidated version) share a sequence number
    from .c08 import r1 as c08_r1
    ctx.shared(c08_r1, "C08.R1", "C15.R13", "the conditional pointer write is keyed to the validated version")
    from .c02 import r6 as c02_r6
    ctx.shared(c02_r6, "C02.R6", "C15.R18", "an index / lookup remembered on a metadata object outlives the list it was built from: after "
               "the copy-and-append of a commit the current snapshot is 'not found' and retention drops it")
    from .c19 import polling_break_double_check
    polling_break_double_check(ctx, "C15.R14")
    delete_filters_every_manifest(ctx)
    from .common import numbers_not_truth_tested
    numbers_not_truth_tested(ctx, "C15.R16", ("snapshot_manager", "transaction", "file_manager"),
                             "sequence number 0, schema id 0, cutoff 0, retention bounds")
    groupby_is_over_sorted_input(ctx, "C15.R17")


def delete_filters_every_manifest(ctx: Ctx, rid: str = "C15.R15") -> None:
    ctx.rule(rid, "a delete looks into EVERY manifest of the base snapshot: in the delete branch of _commit_file_ops a manifest is "
             "carried over unchanged only after its entries were read (read_manifest_file) in this very iteration - no early exit "
             "\"once all paths were found\": a file registered in two manifests (re-submitted append, two spellings) would stay "
             "listed by the committed delete", 1)
    f = ctx.fn("transaction.Transaction._commit_file_ops")
    g = ctx.cfg(f)
    reads = [n for n in g.calls() if n.id in g.reachable() and any(t.name == "read_manifest_file" for t in ctx.eff.callees(f, n))]
    loops = [lp for lp in g.nodes if lp.kind == "loop" and isinstance(lp.ast, ast.For) and any(
        any(fr.kind == "loop" and fr.node is lp.ast for fr in r.frames) for r in reads)]
    if not reads or not loops:
        raise AnalysisError("the manifest-filtering loop of _commit_file_ops was not found")
    n_ = 0
    for lp in loops:
        tv = {x.id for x in ast.walk(lp.ast.target) if isinstance(x, ast.Name)}  # type: ignore[union-attr]
        body = edge_target(g, lp, "true")
        inner_reads = [r.id for r in reads if any(fr.kind == "loop" and fr.node is lp.ast for fr in r.frames)]
        for a in g.calls():
            if not (isinstance(a.ast, ast.Call) and isinstance(a.ast.func, ast.Attribute) and a.ast.func.attr in ("append", "add", "extend")
                    and a.ast.args and any(fr.kind == "loop" and fr.node is lp.ast for fr in a.frames)):
                continue
            if not (names_in(a.ast.args[0]) & tv):
                continue  # a rewritten manifest, not the loop's own
            n_ += 1
            w = find_path(g, body, [a.id], avoid=inner_reads, labels=NORMAL) if body is not None and body not in inner_reads else None
            ctx.ob(rid, f, "a manifest is carried over only after it was read", a, w is None,
                   "every path of the iteration to the carry-over passes read_manifest_file" if w is None else
                   "a manifest can be carried into the new snapshot without being looked into: an entry for a deleted file inside it "
                   "survives the delete", witness=ctx.path_witness(f, w))
    if n_ == 0:
        raise AnalysisError("no carry-over of an unchanged manifest found in the delete loop")


def carried_keep_provenance(ctx: Ctx, rid: str = "C15.R10") -> None:
    ctx.rule(rid, "whoever carries files over keeps their origin: at every create_manifest_file(existing_files=X) site of the package, "
             "X holds the DataFile objects read from the manifests - a DataFile(...) rebuilt on the way must pass added_snapshot_id "
             "and sequence_number from its source (the writer stamps EXISTING entries from exactly those two fields)", 1)
    n_sites = 0
    for f in sorted(ctx.prog.functions.values(), key=lambda x: x.qname):
        if isinstance(f.node, ast.Lambda) or judged_in_callers(ctx, f):
            continue
        g = ctx.cfg(f)
        for c in g.calls():
            if c.id not in g.reachable() or not any(t.name == "create_manifest_file" for t in ctx.eff.callees(f, c)):
                continue
            tg = [t for t in ctx.eff.callees(f, c) if t.name == "create_manifest_file"][0]
            ex = ctx.eff.bind_arg(c.ast, tg, "existing_files", True)  # type: ignore[arg-type]
            if ex is None or (isinstance(ex, ast.Constant) and ex.value is None):
                continue
            n_sites += 1
            org = ctx.slicer(f).origins(ex, c.id)
            rebuilt = [x for x in org["calls"] if isinstance(x, ast.Call) and (dotted(x.func) or "").split(".")[-1] == "DataFile"]
            bad = []
            for x in rebuilt:
                kws = {k.arg: k.value for k in x.keywords if k.arg}
                star = any(k.arg is None for k in x.keywords)
                for fld in ("added_snapshot_id", "sequence_number"):
                    v = kws.get(fld)
                    if star:
                        continue
                    if v is None or not (isinstance(v, ast.Attribute) and v.attr == fld):
                        bad.append(f"{norm_text(x)[:40]}... lacks {fld}=<source>.{fld}")
            ctx.ob(rid, f, "carried-over DataFiles keep added_snapshot_id / sequence_number", c, not bad,
                   "existing_files are the manifest's own objects (or full copies)" if not bad else
                   f"{bad[:2]}: the rewritten manifest stamps these files with no origin (snapshot_id / sequence_number NULL) - history is "
                   "falsified from this commit on")
    ctx.ob(rid, None, "carry-over sites enumerated", None, n_sites >= 1, f"{n_sites} site(s)", nontrivial=False)


def _snap_assign(ctx: Ctx, f: FunctionInfo) -> List[Node]:
    g = ctx.cfg(f)
    return [n for n in g.nodes if (n.kind == "stmt" and isinstance(n.ast, ast.Assign)
            and any(isinstance(t, ast.Attribute) and t.attr == "snapshots" for t in n.ast.targets))
            or (n.kind == "stmt" and isinstance(n.ast, ast.Delete) and any(".snapshots[" in norm_text(t) for t in n.ast.targets))]


def r1(ctx: Ctx) -> None:
    ctx.rule("C15.R1", "sibling agreement of the snapshot-removal sites: repoint(before, kept) with the pre-removal list, "
             "snapshot_log filtered by kept ids, current snapshot never dropped", 9)
    def _site(f_: FunctionInfo) -> FunctionInfo:
        """the function that edits the snapshot list: f_ itself, or - when the edit was moved into a callback handed to a
        shared commit helper (`def remove(new_metadata): ...; self.commit_metadata_update(remove, base)`) - that closure"""
        if _snap_assign(ctx, f_):
            return f_
        inner = [x for x in f_.nested.values() if not isinstance(x.node, ast.Lambda) and _snap_assign(ctx, x)]
        return inner[0] if len(inner) == 1 else f_

    mk = ctx.fn("transaction.Transaction._make_expire_mutator")
    sites = {
        "expire mutator": mk.nested.get("mutator") or (_site(mk) if _site(mk) is not mk else None),
        "retention": ctx.fn("snapshot_manager.SnapshotManager._apply_retention"),
        "delete_snapshot": _site(ctx.fn("snapshot_manager.SnapshotManager.delete_snapshot")),
    }
    for role, f in sites.items():
        if f is None:
            raise AnalysisError(f"anchor vanished: {role}")
        g = ctx.cfg(f)
        dom = ctx.dom(f, NORMAL)
        sl = ctx.slicer(f)
        rp = [n for n in g.calls() if any(t.name == REPOINT for t in ctx.eff.callees(f, n))]
        removal = _snap_assign(ctx, f)
        ctx.ob("C15.R1", f, f"{role}: repoint call present", rp[0] if rp else None, bool(rp) and bool(removal),
               "survivors must not keep parent links to removed snapshots", text=role)
        for c in rp:
            call = c.ast
            assert isinstance(call, ast.Call)
            a_all, a_kept = (call.args + [None, None])[:2]
            txt = norm_text(a_all) if a_all is not None else ""
            # (a) first argument = the list before removal
            before_ok = False
            if txt.endswith(".snapshots"):
                # live list read before it is reassigned: the call precedes the removal
                before_ok = all(find_path(g, r.id, [c.id], labels=NORMAL) is None for r in removal)
            elif isinstance(a_all, ast.Name):
                defs = ctx.rd(f).reaching(c.id, a_all.id)
                for d in defs:
                    dn = g.nodes[d]
                    rhs = norm_text(dn.ast.value) if isinstance(dn.ast, ast.Assign) else ""
                    if ("list(" in rhs or "copy" in rhs or rhs.endswith("[:]")) and ".snapshots" in rhs \
                            and all(find_path(g, r.id, [d], labels=NORMAL) is None for r in removal):
                        before_ok = True
            ctx.ob("C15.R1", f, f"{role}: first argument is the snapshot list BEFORE removal", c, before_ok,
                   f"`{txt}`: the ancestry of removed snapshots is what the walk follows", text=role)
            # (b) second argument is what ends up in .snapshots
            kept_txt = norm_text(a_kept) if a_kept is not None else ""
            ends = False
            for r in removal:
                if isinstance(r.ast, ast.Assign) and norm_text(r.ast.value) == kept_txt:
                    ends = True
                if isinstance(r.ast, ast.Delete) and kept_txt.endswith(".snapshots"):
                    ends = find_path(g, r.id, [c.id], labels=NORMAL) is not None  # live list after the del
            ctx.ob("C15.R1", f, f"{role}: second argument is the surviving list", c, ends,
                   f"`{kept_txt}` is the list stored in metadata.snapshots", text=role)
        # snapshot_log filtered
        logs = [n for n in g.nodes if n.kind == "stmt" and isinstance(n.ast, ast.Assign)
                and any(isinstance(t, ast.Attribute) and t.attr == "snapshot_log" for t in n.ast.targets)]
        okl = False
        for l in logs:
            v = l.ast.value  # type: ignore[union-attr]
            if isinstance(v, ast.ListComp) and "snapshot_log" in norm_text(v.generators[0].iter) and v.generators[0].ifs:
                c0 = v.generators[0].ifs[0]
                cond = norm_text(c0)
                # keep an entry iff its snapshot survives: `<e>.snapshot_id in <kept ids>` or `<e>.snapshot_id != <removed id>`
                okl = isinstance(c0, ast.Compare) and len(c0.ops) == 1 and "snapshot_id" in norm_text(c0.left) and (
                    (isinstance(c0.ops[0], ast.In) and "ids" in norm_text(c0.comparators[0]))
                    or (isinstance(c0.ops[0], ast.NotEq) and "snapshot_id" in norm_text(c0.comparators[0])))
        ctx.ob("C15.R1", f, f"{role}: snapshot_log keeps only surviving snapshots", logs[0] if logs else None, okl,
               "no dangling log rows, order preserved (a filtering comprehension over the log)", text=role)
    # (c) never drop the current snapshot
    mut = sites["expire mutator"]
    assert mut is not None
    comps = [n for n in ast.walk(mut.node) if isinstance(n, ast.ListComp) and "snapshots" in norm_text(n.generators[0].iter)]
    # names standing for the current snapshot id inside the mutator
    cur_names = {"current_snapshot_id"} | {t.id for n in ast.walk(mut.node) if isinstance(n, ast.Assign)
                                            and isinstance(n.value, ast.Attribute) and n.value.attr == "current_snapshot_id"
                                            for t in n.targets if isinstance(t, ast.Name)}

    def _is_cur(x: ast.AST) -> bool:
        return (isinstance(x, ast.Attribute) and x.attr == "current_snapshot_id") or (isinstance(x, ast.Name) and x.id in cur_names)

    def _comp_of(name: str):  # type: ignore[no-untyped-def]
        """a set / list / generator comprehension over the snapshots bound once to `name` in the mutator, collecting ids"""
        defs = [n.value for n in ast.walk(mut.node) if isinstance(n, ast.Assign) and len(n.targets) == 1
                and isinstance(n.targets[0], ast.Name) and n.targets[0].id == name]
        if len(defs) == 1 and isinstance(defs[0], (ast.SetComp, ast.ListComp, ast.GeneratorExp)) and len(defs[0].generators) == 1 \
                and "snapshots" in norm_text(defs[0].generators[0].iter) and isinstance(defs[0].elt, ast.Attribute) and defs[0].elt.attr == "snapshot_id":
            return defs[0]
        if len(defs) == 1 and isinstance(defs[0], ast.Call) and isinstance(defs[0].func, ast.Name) and defs[0].func.id in ("set", "frozenset", "list", "tuple") \
                and len(defs[0].args) == 1 and isinstance(defs[0].args[0], (ast.SetComp, ast.ListComp, ast.GeneratorExp)):
            c = defs[0].args[0]
            if len(c.generators) == 1 and "snapshots" in norm_text(c.generators[0].iter) and isinstance(c.elt, ast.Attribute) and c.elt.attr == "snapshot_id":
                return c
        return None

    cut_names = {p_.name for p_ in mut.params if "cutoff" in p_.name or "older" in p_.name} | \
                {x.id for x in ast.walk(mut.node) if isinstance(x, ast.Name) and ("cutoff" in x.id or "older_than" in x.id)}

    def _mk_atom(is_current: bool, ts: Optional[str]):  # type: ignore[no-untyped-def]
        def _atom(x: ast.AST) -> Optional[bool]:
            # scenario: the element under test is / is not the current snapshot; its timestamp is below / at / above the cutoff
            if isinstance(x, ast.Call) and isinstance(x.func, ast.Name) and x.func.id in mut.nested:
                # a local predicate function: its (single) return expression decides
                rs = [r.value for r in ast.walk(mut.nested[x.func.id].node) if isinstance(r, ast.Return) and r.value is not None]
                if len(rs) == 1:
                    return eval3(rs[0], _atom)
                return None
            if isinstance(x, ast.Call) and not isinstance(x.func, ast.Name) or (isinstance(x, ast.Call) and isinstance(x.func, ast.Name)
                                                                                 and x.func.id not in mut.nested and x.func.id not in ("any", "all", "len")):
                # a predicate of the package (`Transaction._is_expired(s, cutoff_ms, current_id)`): its single return expression,
                # with the arguments put in place of the parameters
                try:
                    cal = ctx.prog.resolve_call(x, mut)
                except Exception:
                    cal = None
                if cal is not None and cal.kind == "func" and len(cal.funcs) == 1 and not isinstance(cal.funcs[0].node, ast.Lambda) and not x.keywords:
                    t_ = cal.funcs[0]
                    rs = [r.value for r in ast.walk(t_.node) if isinstance(r, ast.Return) and r.value is not None]
                    pn = [p_.name for p_ in t_.params if not (t_.cls is not None and not t_.is_static and p_ is t_.params[0])]
                    if len(rs) == 1 and len(pn) == len(x.args):
                        import copy as _copy
                        env_ = dict(zip(pn, x.args))

                        class _S(ast.NodeTransformer):
                            def visit_Name(s_, y):  # type: ignore[no-untyped-def]  # noqa: N805
                                if isinstance(y.ctx, ast.Load) and y.id in env_:
                                    return _copy.deepcopy(env_[y.id])
                                return y
                        return eval3(_S().visit(_copy.deepcopy(rs[0])), _atom)
            if isinstance(x, ast.Compare) and len(x.ops) == 1 and isinstance(x.ops[0], (ast.Eq, ast.NotEq)):
                a, b = x.left, x.comparators[0]
                if (_is_cur(a) and isinstance(b, ast.Attribute) and b.attr == "snapshot_id") or \
                        (_is_cur(b) and isinstance(a, ast.Attribute) and a.attr == "snapshot_id"):
                    return isinstance(x.ops[0], ast.Eq) == is_current
            if isinstance(x, ast.Compare) and len(x.ops) == 1 and isinstance(x.ops[0], (ast.In, ast.NotIn)) \
                    and isinstance(x.left, ast.Attribute) and x.left.attr == "snapshot_id" and isinstance(x.comparators[0], ast.Name):
                # `s.snapshot_id in expired_ids` with expired_ids = {s.snapshot_id for s in snapshots if <cond>}: true iff <cond> holds for s
                c = _comp_of(x.comparators[0].id)
                if c is not None:
                    v = True
                    for i in c.generators[0].ifs:
                        r_ = eval3(i, _atom)
                        if r_ is None:
                            return None
                        v = v and r_
                    return v if isinstance(x.ops[0], ast.In) else (not v)
            if ts is not None and isinstance(x, ast.Compare) and len(x.ops) == 1 and isinstance(x.ops[0], (ast.Lt, ast.LtE, ast.Gt, ast.GtE)):
                a, b = x.left, x.comparators[0]
                a_ts = isinstance(a, ast.Attribute) and a.attr == "timestamp_ms"
                b_ts = isinstance(b, ast.Attribute) and b.attr == "timestamp_ms"
                a_cut = isinstance(a, ast.Name) and a.id in cut_names
                b_cut = isinstance(b, ast.Name) and b.id in cut_names
                if (a_ts and b_cut) or (a_cut and b_ts):
                    rel = ts if a_ts else {"lt": "gt", "gt": "lt", "eq": "eq"}[ts]  # relation of LEFT to RIGHT
                    op = x.ops[0]
                    return {"lt": isinstance(op, (ast.Lt, ast.LtE)), "eq": isinstance(op, (ast.LtE, ast.GtE)), "gt": isinstance(op, (ast.Gt, ast.GtE))}[rel]
            return None
        return _atom

    def _kept(is_current: bool, ts: Optional[str]) -> Optional[bool]:
        res = []
        for c in comps:
            if isinstance(c.elt, ast.Attribute):
                continue  # an id-collecting comprehension (judged where it is tested)
            if not c.generators[0].ifs:
                return None
            v = True
            for i in c.generators[0].ifs:
                r_ = eval3(i, _mk_atom(is_current, ts))
                if r_ is None:
                    return None
                v = v and r_
            res.append(v)
        return None if not res else all(res)

    ok = _kept(True, None) is True
    ctx.ob("C15.R1", mut, "expire: keep-predicate has the `== current_snapshot_id` disjunct", None, ok,
           "the current snapshot is never expired, whatever its age", text="expire-current")
    at_cut, above, below = _kept(False, "eq"), _kept(False, "gt"), _kept(False, "lt")
    if at_cut is None or above is None:
        ctx.ob("C15.R1", mut, "expire removes only snapshots strictly older than the cutoff", None, True,
               "keep-predicate not evaluable under the timestamp scenarios (not judged)", nontrivial=False, text="expire-boundary")
    else:
        ctx.ob("C15.R1", mut, "expire removes only snapshots strictly older than the cutoff", None, at_cut is True and above is True,
               f"non-current snapshot kept when its timestamp is AT the cutoff: {at_cut}; above it: {above}; below it: {below} - "
               "`expire_snapshots(older_than_ms=S.timestamp_ms)` keeps S: a retained snapshot stays resolvable by id and by time",
               text="expire-boundary")
    ret = sites["retention"]
    assert ret is not None
    g = ctx.cfg(ret)
    dom = ctx.dom(ret, NORMAL)
    # role: the id set the survivors are filtered by (`s.snapshot_id in K` in the statement that rebuilds the snapshot list /
    # its source) receives the current snapshot's id
    rsl = ctx.slicer(ret)
    rem = _snap_assign(ctx, ret)
    idsets: Set[str] = set()
    for r in rem:
        if isinstance(r.ast, ast.Assign):
            org = rsl.origins(r.ast.value, r.id)
            for e in list(org["exprs"]) + [r.ast.value]:
                for x in ast.walk(e):
                    if isinstance(x, (ast.ListComp, ast.GeneratorExp)):
                        for c in x.generators:
                            for cond in c.ifs:
                                for y in ast.walk(cond):
                                    if isinstance(y, ast.Compare) and len(y.ops) == 1 and isinstance(y.ops[0], ast.In) \
                                            and isinstance(y.comparators[0], ast.Name) and "snapshot_id" in norm_text(y.left):
                                        idsets.add(y.comparators[0].id)
    surv_ok = bool(idsets)
    adds = []
    for n in g.calls():
        if isinstance(n.ast, ast.Call) and isinstance(n.ast.func, ast.Attribute) and n.ast.func.attr in ("add", "update") \
                and norm_text(n.ast.func.value) in idsets and n.ast.args:
            ao = rsl.origins(n.ast.args[0], n.id)
            if any(nm.endswith("current_snapshot_id") for nm in ao["names"]):
                adds.append(n)
    app = adds
    ok = bool(adds)
    algebra = False
    if not adds:
        # set-algebra form: `kept_ids = newest_ids | ({current_id} & all_ids)` - the filter set is DEFINED as a union with the
        # current id (unconditionally; the intersection only drops an id that names no snapshot at all)
        for n in g.nodes:
            if n.kind == "stmt" and isinstance(n.ast, ast.Assign) and len(n.ast.targets) == 1 and isinstance(n.ast.targets[0], ast.Name) \
                    and n.ast.targets[0].id in idsets and n.id in g.reachable():
                v = n.ast.value
                terms = []
                stack = [v]
                while stack:
                    y = stack.pop()
                    if isinstance(y, ast.BinOp) and isinstance(y.op, ast.BitOr):
                        stack += [y.left, y.right]
                    elif isinstance(y, ast.Call) and isinstance(y.func, ast.Attribute) and y.func.attr == "union":
                        stack += [y.func.value] + list(y.args)
                    else:
                        terms.append(y)
                for t_ in terms:
                    core = t_
                    while isinstance(core, ast.BinOp) and isinstance(core.op, ast.BitAnd):
                        core = core.left if isinstance(core.left, ast.Set) else core.right
                    if isinstance(core, ast.Set) and len(core.elts) == 1 and any(
                            nm.endswith("current_snapshot_id") for nm in rsl.origins(core.elts[0], n.id)["names"] | {norm_text(core.elts[0])}):
                        algebra = True
                        app = [n]
        ok = algebra
    # ... and it is re-added WHENEVER it is missing: the path condition of the add consists only of "there is a current snapshot"
    # and "it is not among the kept ones" (a negated / weakened guard re-adds it when it is already there and drops it otherwise)
    bad_guards = []
    cur_like = {"current_snapshot_id"} | {t.id for n in ast.walk(ret.node) if isinstance(n, ast.Assign) and isinstance(n.value, ast.Attribute)
                                          and n.value.attr == "current_snapshot_id" for t in n.targets if isinstance(t, ast.Name)}

    def _is_cur_id(x: ast.AST) -> bool:
        return (isinstance(x, ast.Attribute) and x.attr == "current_snapshot_id") or (isinstance(x, ast.Name) and x.id in cur_like)

    def _missing(x: ast.AST) -> Optional[bool]:
        # scenario: there IS a current snapshot and its id is NOT in the kept set
        if isinstance(x, ast.Compare) and len(x.ops) == 1:
            op, l_, r_ = x.ops[0], x.left, x.comparators[0]
            if _is_cur_id(l_) and isinstance(r_, ast.Name) and r_.id in idsets and isinstance(op, (ast.In, ast.NotIn)):
                return isinstance(op, ast.NotIn)
            if _is_cur_id(l_) and isinstance(r_, ast.Constant) and r_.value is None and isinstance(op, (ast.Is, ast.IsNot)):
                return isinstance(op, ast.IsNot)
        return None

    # the object looked up by the current id ("current = next(s for s in snapshots if s.snapshot_id == current_id)") exists
    found_names = {t.id for n in ast.walk(ret.node) if isinstance(n, ast.Assign) and any(_is_cur_id(y) for y in ast.walk(n.value))
                   and not isinstance(n.value, ast.Attribute) for t in n.targets if isinstance(t, ast.Name)}

    def _scen(x: ast.AST) -> Optional[bool]:
        v_ = _missing(x)
        if v_ is not None:
            return v_
        if isinstance(x, ast.Compare) and len(x.ops) == 1 and isinstance(x.left, ast.Name) and x.left.id in found_names \
                and isinstance(x.comparators[0], ast.Constant) and x.comparators[0].value is None and isinstance(x.ops[0], (ast.Is, ast.IsNot)):
            return isinstance(x.ops[0], ast.IsNot)
        if isinstance(x, ast.Name) and x.id in found_names:
            return True
        if isinstance(x, ast.Compare) and len(x.ops) == 1 and isinstance(x.ops[0], (ast.In, ast.NotIn)) and isinstance(x.left, ast.Attribute) \
                and x.left.attr == "snapshot_id" and isinstance(x.left.value, ast.Name) and x.left.value.id in found_names \
                and isinstance(x.comparators[0], ast.Name) and x.comparators[0].id in idsets:
            return isinstance(x.ops[0], ast.NotIn)  # `current.snapshot_id not in kept_ids`: the found object carries the current id
        if isinstance(x, ast.Call) and dotted(x.func) == "any" and x.args and isinstance(x.args[0], (ast.GeneratorExp, ast.ListComp)):
            el = x.args[0].elt
            if isinstance(el, ast.Compare) and len(el.ops) == 1 and isinstance(el.ops[0], ast.Eq) and (
                    _is_cur_id(el.left) or _is_cur_id(el.comparators[0])):
                return True  # "a snapshot with the current id exists"
        return None

    def _edge_ok(s_: int, d_: int, l_: str) -> bool:
        n_ = g.nodes[s_]
        if n_.kind == "branch" and n_.ast is not None and l_ in ("true", "false"):
            v_ = eval3(n_.ast, _scen)
            if v_ is not None:
                return l_ == ("true" if v_ else "false")
        return True

    if adds and rem and not algebra:
        w_ = find_path(g, g.entry, [r.id for r in rem], avoid=[a_.id for a_ in adds], labels=NORMAL, edge_ok=_edge_ok)
        if w_ is not None:
            bad_guards.append("a path on which the current snapshot exists and is missing from the kept set reaches the removal "
                              "without re-adding it: " + " -> ".join(str(g.nodes[x].lineno) for x in w_ if g.nodes[x].kind == "branch"))
    ok = ok and not bad_guards
    ctx.ob("C15.R1", ret, "retention: the current snapshot is re-added to the kept set", app[0] if app else None, ok and surv_ok,
           f"the id set the surviving snapshots are filtered by ({sorted(idsets)}) receives metadata.current_snapshot_id"
           + (f"; but only under {bad_guards[:3]}" if bad_guards else " whenever it is missing from it"), text="retention-current")
    dl = sites["delete_snapshot"]
    assert dl is not None
    g = ctx.cfg(dl)
    asg = [n for n in g.nodes if n.kind == "stmt" and isinstance(n.ast, ast.Assign)
           and any(isinstance(t, ast.Attribute) and t.attr == "current_snapshot_id" for t in n.ast.targets)]
    ctx.ob("C15.R1", dl, "delete: current_snapshot_id is reassigned when the current snapshot is removed", asg[0] if asg else None,
           bool(asg), "the table is repointed to a surviving snapshot", text="delete-current")


def r2(ctx: Ctx) -> None:
    ctx.rule("C15.R2", "sequence numbers come from the validated base: the only definitions are base.last_sequence_number + 1 and "
             "max(base.last_sequence_number, sequence_number)", 3)
    n_seq = 0
    # (i) the local handed to create_snapshot(sequence_number=...) in _commit_file_ops; (ii) the parameter's None-default in
    # create_snapshot; (iii) every assignment to <metadata>.last_sequence_number in the package
    cf = ctx.fn("transaction.Transaction._commit_file_ops")
    cs = ctx.calls(cf, name="create_snapshot")
    seq_vars = []
    if cs and isinstance(kwarg(cs[0].ast, "sequence_number"), ast.Name):
        seq_vars.append((cf, kwarg(cs[0].ast, "sequence_number").id))  # type: ignore[union-attr]
    elif cs:
        n_seq += 1
        ctx.ob("C15.R2", cf, "the sequence number handed to create_snapshot is a per-attempt local", cs[0], False,
               f"`{norm_text(kwarg(cs[0].ast, 'sequence_number')) if kwarg(cs[0].ast, 'sequence_number') is not None else None}`: a value "
               "kept on the transaction across retry attempts repeats the number of the commit that won the race")
    seq_vars.append((ctx.fn("snapshot_manager.SnapshotManager.create_snapshot"), "sequence_number"))
    for f, var in seq_vars:
        for n in ctx.cfg(f).nodes:
            if n.kind == "stmt" and isinstance(n.ast, ast.Assign) and any(
                    isinstance(t, (ast.Tuple, ast.List)) and any(isinstance(e, ast.Name) and e.id == var for e in t.elts) for t in n.ast.targets):
                n_seq += 1
                ctx.ob("C15.R2", f, "sequence number = base_metadata.last_sequence_number + 1", n, False,
                       f"`{norm_text(n.ast)[:80]}`: the sequence number is unpacked from a value that outlives the attempt (e.g. an identity "
                       "cached on the transaction): a retried commit repeats the number of the commit that won the race")
            if n.kind == "stmt" and isinstance(n.ast, ast.Assign) and any(isinstance(t, ast.Name) and t.id == var for t in n.ast.targets):
                n_seq += 1
                v = n.ast.value
                ok = isinstance(v, ast.BinOp) and isinstance(v.op, ast.Add) and norm_text(v.left).endswith(".last_sequence_number") \
                    and "base" in norm_text(v.left) and isinstance(v.right, ast.Constant) and v.right.value == 1
                ctx.ob("C15.R2", f, "sequence number = base_metadata.last_sequence_number + 1", n, ok,
                       "derived from the base the OCC commit validates against (strictly increasing in commit order); a value cached "
                       "across retry attempts would repeat the number of the commit that won the race")
    for f in ctx.prog.functions.values():
        if isinstance(f.node, ast.Lambda):
            continue
        for n in ctx.cfg(f).nodes:
            if n.kind != "stmt" or not isinstance(n.ast, ast.Assign):
                continue
            for t in n.ast.targets:
                if isinstance(t, ast.Attribute) and t.attr == "last_sequence_number":
                    n_seq += 1
                    v = n.ast.value
                    ok = isinstance(v, ast.Call) and (dotted(v.func) or "") == "max" and any("last_sequence_number" in norm_text(a) for a in v.args) \
                        and len(v.args) == 2
                    ctx.ob("C15.R2", f, "last_sequence_number = max(base, sequence_number)", n, ok,
                           "the table's last sequence number never decreases and bounds every snapshot's number")
    sn = ctx.fn("snapshot_manager.SnapshotManager.create_snapshot")
    ctors = [n for n in ctx.cfg(sn).calls() if n.callee and n.callee.kind == "ctor" and n.callee.cls and n.callee.cls.name == "Snapshot"]
    ok = bool(ctors) and norm_text(kwarg(ctors[0].ast, "sequence_number")) == "sequence_number"
    ctx.ob("C15.R2", sn, "the Snapshot carries that sequence number", ctors[0] if ctors else None, ok, "")
    if n_seq < 3:
        raise AnalysisError(f"only {n_seq} sequence-number definitions found")


def r3(ctx: Ctx) -> None:
    ctx.rule("C15.R3", "carried-over entries keep their origin (#37): EXISTING entries take snapshot id / sequence number from the "
             "DataFile, ADDED entries from the commit; the reader restores both", 4)
    f = ctx.fn("file_manager.FileManager.create_manifest_file")
    g = ctx.cfg(f)
    if _r3_stamp_helper(ctx, f):
        _r3_reader(ctx, f, 3)
        return
    brs = [b for b in g.nodes if b.kind == "branch" and "ENTRY_STATUS_ADDED" in b.text and "status" in b.text]
    if not brs:
        _r3_rows(ctx, f)
        _r3_reader(ctx, f, 3)
        return
    b = brs[0]
    t_added, t_exist = edge_target(g, b, "true"), edge_target(g, b, "false")
    join_stop = [n.id for n in g.nodes if n.kind == "branch" and n.id != b.id]
    # role: the per-entry variables are the ones stored under 'snapshot_id' / 'sequence_number' in the entry record
    dicts0 = [d for d in walk_all(ctx, f) if isinstance(d, ast.Dict) and any(isinstance(k, ast.Constant) and k.value == "snapshot_id" for k in d.keys)]
    entry_vars: Dict[str, str] = {}
    if dicts0:
        for k, v in zip(dicts0[0].keys, dicts0[0].values):
            if isinstance(k, ast.Constant) and k.value in ("snapshot_id", "sequence_number") and isinstance(v, ast.Name):
                entry_vars[str(k.value)] = v.id
    pnames = {p.name for p in f.params}
    for key, exist_src in (("snapshot_id", "added_snapshot_id"), ("sequence_number", "sequence_number")):
        var = entry_vars.get(key)
        for edge, role in ((t_added, "ADDED"), (t_exist, "EXISTING")):
            if edge is None or var is None:
                ctx.ob("C15.R3", f, f"{role}: per-entry {key} variable", b, False, "entry record no longer stores a per-entry variable", text=f"{role}:{key}")
                continue
            reach = reachable_from(g, edge, NORMAL, avoid=join_stop) | {edge}
            defs = [g.nodes[x] for x in reach if g.nodes[x].kind == "stmt" and isinstance(g.nodes[x].ast, (ast.Assign, ast.AnnAssign))
                    and var == norm_text(g.nodes[x].ast.targets[0] if isinstance(g.nodes[x].ast, ast.Assign) else g.nodes[x].ast.target)]
            ok = False
            for d in defs:
                v = d.ast.value  # type: ignore[union-attr]
                if role == "ADDED":
                    # from the function's snapshot_id / sequence_number parameter (possibly via a defaulting local), not from df
                    org = ctx.slicer(f).origins(v, d.id)
                    ok = bool(org["params"] & {p for p in pnames if key.split("_")[0] in p}) and not any(
                        isinstance(x, ast.Attribute) and x.attr in ("added_snapshot_id",) for e in org["exprs"] for x in ast.walk(e))
                else:
                    ok = isinstance(v, ast.Attribute) and v.attr == exist_src and isinstance(v.value, ast.Name) and v.value.id not in ("self",)
            ctx.ob("C15.R3", f, f"{role}: per-entry {key} source", defs[0] if defs else b, ok and bool(defs),
                   ("stamped with the committing snapshot" if role == "ADDED" else "preserved from the DataFile (history is not falsified)"),
                   text=f"{role}:{key}")
    _r3_reader(ctx, f, len(entry_vars) + 1)


def _r3_stamp_helper(ctx: Ctx, f: FunctionInfo) -> bool:
    """Helper form of the stamping rule: the (status, snapshot id, sequence number) of an entry are the tuple a stamp helper
    returns, computed per file in one comprehension over the ADDED files and one over the carried-over files.  The helper is
    evaluated by scenario for either call (symbolic inputs: the commit's id / sequence number, the file's own): ADDED entries
    must come out as (ADDED, commit id, commit sequence), carried-over ones as (EXISTING, the file's added_snapshot_id, the file's
    sequence_number).  Returns False when the function is not of this form (the other forms of the rule decide)."""
    from .common import concrete_eval, explore, UNKNOWN
    nodes = walk_all(ctx, f)
    recs = [d for d in nodes if isinstance(d, ast.Dict) and any(isinstance(k, ast.Constant) and k.value == "snapshot_id" for k in d.keys)]
    var: Dict[str, str] = {}
    if recs:
        for k, v in zip(recs[0].keys, recs[0].values):
            if isinstance(k, ast.Constant) and k.value in ("status", "snapshot_id", "sequence_number") and isinstance(v, ast.Name):
                var[str(k.value)] = v.id
    if len(var) != 3:
        return False
    loops = [x for x in ast.walk(f.node) if isinstance(x, ast.For) and isinstance(x.target, ast.Tuple) and len(x.target.elts) == 2
             and isinstance(x.target.elts[1], ast.Tuple) and {e.id for e in x.target.elts[1].elts if isinstance(e, ast.Name)} == set(var.values())
             and isinstance(x.iter, ast.Name)]
    if len(loops) != 1:
        return False
    lp = loops[0]
    order = [e.id for e in lp.target.elts[1].elts]  # type: ignore[union-attr]
    pos = {k: order.index(v) for k, v in var.items()}
    defs = [x.value for x in ast.walk(f.node) if isinstance(x, ast.Assign) and len(x.targets) == 1 and isinstance(x.targets[0], ast.Name)
            and x.targets[0].id == lp.iter.id]  # type: ignore[union-attr]
    if len(defs) != 1:
        return False
    comps: List[ast.ListComp] = []
    stack = [defs[0]]
    while stack:
        e = stack.pop()
        if isinstance(e, ast.BinOp) and isinstance(e.op, ast.Add):
            stack += [e.left, e.right]
        elif isinstance(e, ast.ListComp) and len(e.generators) == 1 and not e.generators[0].ifs and isinstance(e.elt, ast.Tuple) and len(e.elt.elts) == 2 \
                and isinstance(e.elt.elts[1], ast.Call) and isinstance(e.generators[0].target, ast.Name) and isinstance(e.generators[0].iter, ast.Name):
            comps.append(e)
        else:
            return False
    if len(comps) != 2:
        return False
    consts = {}
    for nm in ("ENTRY_STATUS_ADDED", "ENTRY_STATUS_EXISTING"):
        c = f.module.consts.get(nm)
        if not (isinstance(c, ast.Constant) and isinstance(c.value, int)):
            return False
        consts[nm] = c.value
    fparams = {p.name for p in f.params}
    sl = ctx.slicer(f)
    host = next((n for n in ctx.cfg(f).nodes if n.kind == "stmt" and n.ast is not None and any(y is defs[0] for y in ast.walk(n.ast))), None)
    if host is None:
        return False
    roles_seen = set()
    for comp in comps:
        it = comp.generators[0].iter.id  # type: ignore[union-attr]
        role = "EXISTING" if "existing" in it else "ADDED"
        roles_seen.add(role)
        call = comp.elt.elts[1]  # type: ignore[union-attr]
        try:
            cal = ctx.prog.resolve_call(call, f)
        except Exception:
            return False
        if cal is None or cal.kind != "func" or len(cal.funcs) != 1:
            return False
        t = cal.funcs[0]
        tp = [p for p in t.params if not (t.cls is not None and not t.is_static and p is t.params[0])]
        env: Dict[str, object] = {}
        okb = len(call.args) <= len(tp) and not call.keywords
        for i_, p_ in enumerate(tp):
            a = call.args[i_] if i_ < len(call.args) else p_.default
            if a is None:
                okb = False
                break
            if isinstance(a, ast.Name) and a.id == comp.generators[0].target.id:  # type: ignore[union-attr]
                env[p_.name + ".added_snapshot_id"] = "DF_SID"
                env[p_.name + ".sequence_number"] = "DF_SEQ"
            elif isinstance(a, ast.Name) and a.id in consts:
                env[p_.name] = consts[a.id]
            elif isinstance(a, ast.Constant):
                env[p_.name] = a.value
            else:
                org = sl.origins(a, host.id)
                ps = (org["params"] | ({a.id} if isinstance(a, ast.Name) and a.id in fparams else set())) & fparams
                if any("snapshot" in p for p in ps) and not any("sequence" in p for p in ps):
                    env[p_.name] = "SID"
                elif any("sequence" in p for p in ps) and not any("snapshot" in p for p in ps):
                    env[p_.name] = "SEQ"
                else:
                    okb = False
        tg = ctx.cfg(t)
        outs = set()
        if okb:
            for nid, store, _asm in explore(ctx, t, [tg.entry], env, stop=[n.id for n in tg.nodes if n.kind == "return"]):
                n_ = tg.nodes[nid]
                if n_.kind == "return" and n_.ast is not None and getattr(n_.ast, "value", None) is not None:
                    scen = dict(env)
                    scen.update({k: v for k, v in store.items() if isinstance(k, str)})
                    outs.add(concrete_eval(ctx, t, n_.ast.value, scen, nid))  # type: ignore[union-attr]
        want = [None, None, None]
        want[pos["status"]] = consts["ENTRY_STATUS_ADDED"] if role == "ADDED" else consts["ENTRY_STATUS_EXISTING"]
        want[pos["snapshot_id"]] = "SID" if role == "ADDED" else "DF_SID"
        want[pos["sequence_number"]] = "SEQ" if role == "ADDED" else "DF_SEQ"
        good = okb and outs == {tuple(want)}
        for key in ("snapshot_id", "sequence_number"):
            ctx.ob("C15.R3", f, f"{role}: per-entry {key} source", None, good,
                   (f"scenario evaluation of {t.name}(...) for the {role} comprehension (nothing is run): returns {sorted(map(repr, outs))}, "
                    f"expected {tuple(want)!r} - " + ("stamped with the committing snapshot" if role == "ADDED" else
                                                      "preserved from the DataFile (history is not falsified)")), text=f"{role}:{key}")
    return roles_seen == {"ADDED", "EXISTING"}


def _r3_reader(ctx: Ctx, f: FunctionInfo, n_vars: int) -> None:
    rm = ctx.fn("file_manager.FileManager.read_manifest_file")
    ctors = [n for n in ctx.cfg(rm).calls() if n.callee and n.callee.kind == "ctor" and n.callee.cls and n.callee.cls.name == "DataFile"]
    avro = ctors[0] if ctors else None
    ok = avro is not None and "snapshot_id" in norm_text(kwarg(avro.ast, "added_snapshot_id")) and \
        "sequence_number" in norm_text(kwarg(avro.ast, "sequence_number"))
    ctx.ob("C15.R3", rm, "reader restores added_snapshot_id and sequence_number", avro, ok, "")
    # the record written carries those two variables
    dicts = [d for d in walk_all(ctx, f) if isinstance(d, ast.Dict)]
    rec = [d for d in dicts if any(isinstance(k, ast.Constant) and k.value == "snapshot_id" for k in d.keys)]
    ok = bool(rec) and n_vars == 3
    ctx.ob("C15.R3", f, "the entry record stores the per-entry values", None, ok, "'snapshot_id': entry_snapshot_id, 'sequence_number': entry_sequence_number")


def _r3_rows(ctx: Ctx, f: FunctionInfo) -> None:
    """Row form of the entry table: the record's status / snapshot_id / sequence_number are bound from tuples
    `(..., ENTRY_STATUS_<X>, <sid>, <seq>)`; each tuple display is judged by the status constant it carries."""
    g = ctx.cfg(f)
    nodes = walk_all(ctx, f)
    recs = [d for d in nodes if isinstance(d, ast.Dict) and any(isinstance(k, ast.Constant) and k.value == "snapshot_id" for k in d.keys)]
    var: Dict[str, str] = {}
    if recs:
        for k, v in zip(recs[0].keys, recs[0].values):
            if isinstance(k, ast.Constant) and k.value in ("status", "snapshot_id", "sequence_number") and isinstance(v, ast.Name):
                var[str(k.value)] = v.id
    binders = [t for x in nodes for t in ([x.target] if isinstance(x, (ast.comprehension, ast.For)) else [])
               if isinstance(t, ast.Tuple) and set(var.values()) <= {e.id for e in t.elts if isinstance(e, ast.Name)}]
    if len(var) != 3 or not binders:
        raise AnalysisError("status branch vanished from create_manifest_file")
    tgt = binders[0]
    idx = {k: next(i for i, e in enumerate(tgt.elts) if isinstance(e, ast.Name) and e.id == v) for k, v in var.items()}
    rows = [t for t in nodes if isinstance(t, ast.Tuple) and isinstance(t.ctx, ast.Load) and len(t.elts) == len(tgt.elts)
            and (dotted(t.elts[idx["status"]]) or "").startswith("ENTRY_STATUS_")]
    roles = {(dotted(t.elts[idx["status"]]) or "").replace("ENTRY_STATUS_", "") for t in rows}
    if not {"ADDED", "EXISTING"} <= roles:
        raise AnalysisError("entry rows for ADDED / EXISTING not found in create_manifest_file")
    pnames = {p.name for p in f.params}
    for t in rows:
        role = (dotted(t.elts[idx["status"]]) or "").replace("ENTRY_STATUS_", "")
        host = next((n for n in g.nodes if n.ast is not None and n.kind in ("stmt", "call", "return", "branch")
                     and any(x is t for x in ast.walk(n.ast))), None)
        for key, exist_src in (("snapshot_id", "added_snapshot_id"), ("sequence_number", "sequence_number")):
            v = t.elts[idx[key]]
            if role == "ADDED":
                org = ctx.slicer(f).origins(v, host.id) if host is not None else {"params": set(), "exprs": []}
                ok = bool(org["params"] & {p for p in pnames if key.split("_")[0] in p}) and not any(
                    isinstance(x, ast.Attribute) and x.attr in ("added_snapshot_id",) for e in list(org["exprs"]) + [v] for x in ast.walk(e))
                ok = ok and not isinstance(v, ast.Attribute)
            else:
                ok = isinstance(v, ast.Attribute) and v.attr == exist_src and isinstance(v.value, ast.Name) and v.value.id not in ("self",) \
                    and isinstance(t.elts[0], ast.Name) and v.value.id == t.elts[0].id
            ctx.ob("C15.R3", f, f"{role}: per-entry {key} source", host, ok,
                   ("stamped with the committing snapshot" if role == "ADDED" else "preserved from the DataFile (history is not falsified)"),
                   text=f"{role}:{key}")


def r4(ctx: Ctx) -> None:
    ctx.rule("C15.R4", "one id per commit (#27): the same snapshot_id and sequence_number definitions reach the manifest writers, "
             "the manifest-list writer and create_snapshot", 4)
    f = ctx.fn("transaction.Transaction._commit_file_ops")
    g = ctx.cfg(f)
    rd = ctx.rd(f)
    cs = ctx.calls(f, name="create_snapshot")
    if not cs:
        raise AnalysisError("create_snapshot call vanished from _commit_file_ops")
    for kw in ("snapshot_id", "sequence_number"):
        a0 = kwarg(cs[0].ast, kw)
        var = a0.id if isinstance(a0, ast.Name) else None
        defsets = []
        for n in g.calls():
            tg = ctx.eff.callees(f, n)
            names = [t.name for t in tg]
            if not any(x in ("create_manifest_file", "create_manifest_list_file", "create_snapshot") for x in names):
                continue
            if kw == "sequence_number" and names[0] == "create_manifest_list_file":
                continue
            bound = ctx.eff.bind_arg(n.ast, tg[0], kw, True)  # type: ignore[arg-type]
            uses = isinstance(bound, ast.Name) and bound.id == var
            ctx.ob("C15.R4", f, f"{names[0]} receives the commit's {kw}", n, bool(uses) and var is not None,
                   f"the commit's {kw} is passed explicitly (same variable as create_snapshot's)", text=f"{kw}@{names[0]}@{n.lineno - f.lineno}")
            if uses:
                defsets.append(tuple(rd.reaching(n.id, var)))
        ctx.ob("C15.R4", f, f"a single definition of {kw} reaches every writer", None,
               len(set(defsets)) == 1 and len(defsets[0]) == 1 if defsets else False,
               f"reaching definitions: {sorted(set(defsets))}", text=kw)
    sn = ctx.fn("snapshot_manager.SnapshotManager.create_snapshot")
    ctors = [n for n in ctx.cfg(sn).calls() if n.callee and n.callee.kind == "ctor" and n.callee.cls and n.callee.cls.name == "Snapshot"]
    ok = bool(ctors) and norm_text(kwarg(ctors[0].ast, "snapshot_id")) == "snapshot_id"
    sg = ctx.cfg(sn)
    gen = [n for n in sg.nodes if n.kind == "stmt" and isinstance(n.ast, ast.Assign) and norm_text(n.ast.targets[0]) == "snapshot_id"]
    dom = ctx.dom(sn, NORMAL)
    guarded = all(any(b.kind == "branch" and norm_text(b.ast) == "snapshot_id is None" and b.id in dom[x.id] for b in sg.nodes) for x in gen)
    ctx.ob("C15.R4", sn, "create_snapshot uses the caller's id (generates one only when none was given)", ctors[0] if ctors else None,
           ok and guarded, "the committed Snapshot carries the id stamped into its manifests")


def r5(ctx: Ctx) -> None:
    ctx.rule("C15.R5", "the mutator cannot remove the committing snapshot: create_snapshot re-checks after the mutator and raises", 1)
    sn = ctx.fn("snapshot_manager.SnapshotManager.create_snapshot")
    g = ctx.cfg(sn)
    dom = ctx.dom(sn, NORMAL)
    mut = [n for n in g.calls() if n.callee and n.callee.kind == "param" and "mutator" in n.callee.name]
    commit = [n for n in g.calls() if any(t.qname == "datashard.metadata_manager.MetadataManager.commit" for t in ctx.eff.callees(sn, n))]
    chk = [b for b in g.nodes if b.kind == "branch" and "snapshot_id" in b.text and ("all(" in b.text or "any(" in b.text or " in " in b.text)]
    ok = False
    for b in chk:
        for lab in ("true", "false"):
            t = edge_target(g, b, lab)
            if t is not None and any(g.nodes[x].kind == "raise" for x in reachable_from(g, t, NORMAL)) and not any(c.id in reachable_from(g, t, NORMAL) for c in commit):
                if mut and any(m.id in dom[b.id] for m in mut):
                    ok = True
    ctx.ob("C15.R5", sn, "post-mutator check raises when the new snapshot is gone", chk[0] if chk else None, ok and bool(commit),
           "current_snapshot_id always names a retained snapshot")
    app = [n for n in g.calls() if isinstance(n.ast, ast.Call) and isinstance(n.ast.func, ast.Attribute) and n.ast.func.attr == "append"
           and norm_text(n.ast.func.value).endswith(".snapshots")]
    cur = [n for n in g.nodes if n.kind == "stmt" and isinstance(n.ast, ast.Assign) and norm_text(n.ast.targets[0]).endswith(".current_snapshot_id")]
    ctx.ob("C15.R5", sn, "the new snapshot is appended and made current before the commit", app[0] if app else None,
           bool(app) and bool(cur) and all(a.id in dom[c.id] for a in app for c in commit) and all(x.id in dom[c.id] for x in cur for c in commit), "")
    ret = [n for n in g.calls() if any(t.name == "_apply_retention" for t in ctx.eff.callees(sn, n))]
    ctx.ob("C15.R5", sn, "retention runs on the new metadata before the commit", ret[0] if ret else None,
           bool(ret) and all(r.id in dom[c.id] for r in ret for c in commit), "", nontrivial=True)


def r6(ctx: Ctx) -> None:
    ctx.rule("C15.R6", "metadata log: the entry names the superseded file, the trim keeps the newest entries, and the log is "
             "updated before the metadata file is written", 3)
    f = ctx.fn("metadata_manager.MetadataManager._append_metadata_log")
    g = ctx.cfg(f)
    def _entry_value(key: str) -> Optional[ast.AST]:
        """value stored under `key` in a dict display of f (keys may be spelled through class / module constants)"""
        for d in ast.walk(f.node):
            if isinstance(d, ast.Dict):
                for k, v in zip(d.keys, d.values):
                    if k is not None and ctx.prog.const_str(k, f.module, f) == key:
                        return v
        return None

    mv = _entry_value("metadata-file")
    epn = norm_text(mv) if mv is not None else ""
    prevp = f.params[-1].name
    ep = [n for n in g.nodes if n.kind == "stmt" and isinstance(n.ast, ast.Assign) and norm_text(n.ast.targets[0]) == epn]
    eo = ctx.slicer(f).origins(ep[0].ast.value, ep[0].id) if ep else {"names": set(), "params": set()}  # type: ignore[union-attr]
    ok = bool(ep) and (prevp in eo["names"]) and any(n.endswith("metadata_path") for n in eo["names"])
    ctx.ob("C15.R6", f, "entry path = metadata dir + superseded file", ep[0] if ep else None, ok, "")
    from .common import walk_all
    everything = walk_all(ctx, f)  # incl. helpers analysed in place (`_trim_oldest(log, max_entries)`)
    logv = {nm for n in everything if isinstance(n, ast.Assign) and any(isinstance(t, ast.Attribute) and t.attr == "metadata_log" for t in n.targets)
            for nm in names_in(n.value)}
    slices = [n for n in everything if isinstance(n, ast.Subscript) and isinstance(n.slice, ast.Slice) and norm_text(n.value) in logv]

    def _tail(sx: ast.Subscript) -> Optional[ast.AST]:
        """the count kept by a suffix slice: L[-n:] -> n ; L[k:] with k = len(L) - n -> n ; anything else is not a 'newest n' trim"""
        sl_ = sx.slice
        if not isinstance(sl_, ast.Slice) or sl_.upper is not None or sl_.step is not None or sl_.lower is None:
            return None
        if isinstance(sl_.lower, ast.UnaryOp) and isinstance(sl_.lower.op, ast.USub):
            return sl_.lower.operand
        host = next((n for n in g.nodes if n.ast is not None and any(x is sx for x in ast.walk(n.ast))), None)
        if host is None:
            return None
        kept = []
        for src, _a in resolve_value(ctx, f, sl_.lower, host.id):
            parts = [src.body, src.orelse] if isinstance(src, ast.IfExp) else [src]
            for p_ in parts:
                if isinstance(p_, ast.Constant) and p_.value == 0:
                    continue  # L[0:] keeps everything
                if isinstance(p_, ast.BinOp) and isinstance(p_.op, ast.Sub) and isinstance(p_.left, ast.Call) and dotted(p_.left.func) == "len" \
                        and p_.left.args and norm_text(p_.left.args[0]) == norm_text(sx.value):
                    kept.append(p_.right)
                else:
                    return None
        return kept[0] if len(kept) == 1 else None

    tails = {id(sx): _tail(sx) for sx in slices}
    ok = bool(slices) and all(tails[id(sx)] is not None for sx in slices)
    ctx.ob("C15.R6", f, "trim keeps the newest entries (log[-max:])", None, ok,
           f"slices: {[norm_text(s) for s in slices]}")
    # the bound is the one configured in the version being WRITTEN (new_metadata.properties), not in the superseded one
    newp, basep = f.params[1].name if f.params[0].name == "self" else f.params[0].name, None
    pn = [p.name for p in f.params if p.name != "self"]
    newp, basep = (pn[0], pn[1]) if len(pn) >= 2 else (pn[0], None)
    fsl = ctx.slicer(f)
    for sn in [n for n in g.nodes if n.kind in ("stmt", "return") and n.ast is not None and any(x in slices for x in ast.walk(n.ast))]:
        for sx in [x for x in ast.walk(sn.ast) if x in slices]:
            bound = tails.get(id(sx)) or (sx.slice.lower or sx.slice.upper)  # type: ignore[union-attr]
            if bound is None:
                continue
            org = fsl.origins(bound, sn.id)
            from_new = any(nm.startswith(newp + ".properties") for nm in org["names"])
            from_base = basep is not None and any(nm.startswith(basep + ".properties") for nm in org["names"])
            ctx.ob("C15.R6", f, "the trim bound is read from the metadata being written", sn, from_new and not from_base,
                   f"bound `{norm_text(bound)}` derives from {sorted(n for n in org['names'] if 'properties' in n)}: a commit that "
                   "lowers write.metadata.previous-versions-max must already honour it (the written version would otherwise carry "
                   "more log entries than it allows itself)")
    # a configured bound of 1 is a bound: whatever guards the trim lets max_entries == 1 through (`1 < max` would let the log of a
    # table configured to keep ONE previous version grow for ever)
    for sn in [n for n in g.nodes if n.kind in ("stmt", "return") and n.ast is not None and any(x in slices for x in ast.walk(n.ast))]:
        for sx in [x for x in ast.walk(sn.ast) if x in slices]:
            bound = tails.get(id(sx))
            if bound is None or not isinstance(bound, ast.Name):
                continue
            lows = []
            for pol, e_, _a in facts_at(ctx, f, sn):
                if not isinstance(e_, ast.Compare) or pol not in ("true", "false"):
                    continue
                items = [e_.left] + list(e_.comparators)
                for i_, op in enumerate(e_.ops):
                    a_, b_ = items[i_], items[i_ + 1]
                    if pol == "false" and len(e_.ops) > 1:
                        continue
                    o = type(op)
                    if pol == "false":
                        o = {ast.Lt: ast.GtE, ast.LtE: ast.Gt, ast.Gt: ast.LtE, ast.GtE: ast.Lt}.get(o)  # type: ignore[assignment]
                    if o is None:
                        continue
                    if isinstance(a_, ast.Name) and a_.id == bound.id and isinstance(b_, ast.Constant) and isinstance(b_.value, int):
                        if o is ast.Gt:
                            lows.append(b_.value + 1)
                        elif o is ast.GtE:
                            lows.append(b_.value)
                    if isinstance(b_, ast.Name) and b_.id == bound.id and isinstance(a_, ast.Constant) and isinstance(a_.value, int):
                        if o is ast.Lt:
                            lows.append(a_.value + 1)
                        elif o is ast.LtE:
                            lows.append(a_.value)
            if lows:
                ctx.ob("C15.R6", f, "a bound of 1 trims the log", sn, max(lows) <= 1,
                       f"the trim runs for `{bound.id}` >= {max(lows)}" + ("" if max(lows) <= 1 else ": with write.metadata.previous-versions-max = 1 "
                                                                             "the log is never trimmed and grows without bound"), text="bound-1")
    tv = _entry_value("timestamp-ms")
    ok = tv is not None and "base_metadata.last_updated_ms" in norm_text(tv)
    ctx.ob("C15.R6", f, "entry timestamp is the superseded version's stamp", None, ok, "")
    c = ctx.fn("metadata_manager.MetadataManager.commit")
    cg = ctx.cfg(c)
    al = ctx.calls(c, name="_append_metadata_log")
    mw = ctx.calls(c, name="_write_metadata_file")
    ok = bool(al) and bool(mw) and all(find_path(cg, m.id, [a.id], labels=NORMAL) is None for m in mw for a in al)
    prev_args = {nm for a in al for nm in names_in(a.ast.args[-1] if isinstance(a.ast, ast.Call) and a.ast.args else None)}
    guard_false = {(b.id, d) for b in cg.nodes if b.kind == "branch" and isinstance(b.ast, ast.Compare) and isinstance(b.ast.ops[0], ast.IsNot)
                   and names_in(b.ast.left) & prev_args for d, l in cg.succ[b.id] if l == "false"}
    w = find_path(cg, cg.entry, [mw[0].id], avoid=[a.id for a in al], labels=NORMAL, edge_ok=lambda s, d, l: (s, d) not in guard_false) if mw else None
    ctx.ob("C15.R6", c, "the log is appended before the metadata file is written", al[0] if al else None, ok and w is None,
           "the written version names the version it superseded", witness=ctx.path_witness(c, w))


def r8(ctx: Ctx, rid: str = "C15.R8") -> None:
    ctx.rule(rid, "a file delete keeps everything else: in the manifest loop of _commit_file_ops every existing manifest reaches "
             "final_manifests.append (unchanged or rewritten with its survivors) unless none of its files survives", 1)
    f = ctx.fn("transaction.Transaction._commit_file_ops")
    g = ctx.cfg(f)
    sl = ctx.slicer(f)
    lists = ctx.calls(f, name="create_manifest_list_file")
    if not lists:
        raise AnalysisError("create_manifest_list_file vanished from _commit_file_ops")
    larg = lists[0].ast.args[0] if lists[0].ast.args else kwarg(lists[0].ast, "manifest_files")  # type: ignore[union-attr]
    lname = dotted(larg) if larg is not None else None
    if not lname:
        raise AnalysisError("the manifest list argument is not a variable")
    # the list may be built under another name inside a helper analysed in place and come back through its return value
    lnames = {lname} | {nm for nm in sl.origins(larg, lists[0].id)["names"] if "." not in nm}
    appends = [n for n in g.calls() if isinstance(n.ast, ast.Call) and isinstance(n.ast.func, ast.Attribute)
               and n.ast.func.attr in ("append", "extend") and dotted(n.ast.func.value) in lnames]
    loops = [l for l in g.nodes if l.kind == "loop" and isinstance(l.ast, ast.For)
             and any(isinstance(c, ast.Call) and (dotted(c.func) or "").endswith("read_manifest_list_file")
                     for c in sl.origins(l.ast.iter, l.id)["calls"])
             and any(any(fr.kind == "loop" and fr.node is l.ast for fr in a.frames) for a in appends)]
    if not loops:
        raise AnalysisError("the per-manifest delete loop of _commit_file_ops was not found")
    lp = loops[0]
    # the survivors variable: assigned from a filtering comprehension inside the loop
    svars = {n.ast.targets[0].id for n in g.nodes if n.kind == "stmt" and isinstance(n.ast, ast.Assign) and len(n.ast.targets) == 1
             and isinstance(n.ast.targets[0], ast.Name) and isinstance(n.ast.value, ast.ListComp) and n.ast.value.generators[0].ifs
             and any(fr.kind == "loop" and fr.node is lp.ast for fr in n.frames)}
    if not svars:
        raise AnalysisError("no filtered survivors list in the delete loop")
    env = {v: () for v in svars}
    skip_ok: Set[Tuple[int, int]] = set()
    for b in g.nodes:
        if b.kind == "branch" and b.ast is not None and (set(names_in(b.ast)) & svars):
            v = concrete_eval(ctx, f, b.ast, env, b.id)
            if v is not UNKNOWN:
                skip_ok |= {(b.id, d) for d, l in g.succ[b.id] if l == ("true" if v else "false")}
    body = edge_target(g, lp, "true")
    inside = [a for a in appends if any(fr.kind == "loop" and fr.node is lp.ast for fr in a.frames)]
    w = None
    if body is not None:
        w = find_path(g, body, [lp.id], avoid=[a.id for a in inside], labels=NORMAL,
                      edge_ok=lambda s_, d_, l_: (s_, d_) not in skip_ok)
    ctx.ob(rid, f, "every manifest with surviving files is carried into the new snapshot", lp, bool(inside) and w is None,
           f"survivors variable(s) {sorted(svars)}; an iteration may end without {lname}.append only on the edge where no file "
           "survives - otherwise the surviving rows of that manifest silently leave the table", witness=ctx.path_witness(f, w))
    for a in inside:
        arg = a.ast.args[0] if a.ast.args else None  # type: ignore[union-attr]
        org = sl.origins(arg, a.id)
        from_loop = isinstance(lp.ast.target, ast.Name) and lp.ast.target.id in org["names"]  # type: ignore[union-attr]
        rewritten = any(isinstance(c, ast.Call) and (dotted(c.func) or "").endswith("create_manifest_file") for c in org["calls"])
        ctx.ob(rid, f, "what is carried over is this manifest or its rewrite", a, from_loop or rewritten, "")


def r7(ctx: Ctx) -> None:
    ctx.rule("C15.R7", "a file delete removes exactly the named files: the filter compares for equality/membership with both operands "
             "under the same leading-slash normalisation", 1)
    f = ctx.fn("transaction.Transaction._commit_file_ops")
    g = ctx.cfg(f)
    # the function itself plus helpers extracted from it later (their statements appear, alpha-renamed, in f's CFG)
    roots: List[ast.AST] = [f.node] + [n.ast for n in g.nodes if n.ast is not None and n.kind in ("stmt", "return")]
    comps = []
    for root in roots:
        for n in ast.walk(root):
            if isinstance(n, ast.ListComp) and "data_files" in norm_text(n.generators[0].iter) and n.generators[0].ifs and n not in comps:
                comps.append(n)
    if not comps:
        raise AnalysisError("surviving-files comprehension vanished from _commit_file_ops")
    c = comps[0]
    tests: List[ast.Compare] = [x for i in c.generators[0].ifs for x in ast.walk(i) if isinstance(x, ast.Compare)]
    if not tests:
        raise AnalysisError("delete filter has no membership test")
    problems = []
    for t in tests:
        if not isinstance(t.ops[0], (ast.NotIn, ast.In, ast.Eq, ast.NotEq)):
            problems.append(f"`{norm_text(t)}` is not an equality/membership test")
            continue
        left_norm = "lstrip" in norm_text(t.left)
        right = t.comparators[0]
        right_norm = False
        if isinstance(right, ast.Name):
            # follow the definition of the set
            norms = []
            for n in g.nodes:
                if n.kind == "stmt" and isinstance(n.ast, ast.Assign) and any(isinstance(x, ast.Name) and x.id == right.id for x in n.ast.targets):
                    v_ = n.ast.value
                    empty = (isinstance(v_, ast.Call) and isinstance(v_.func, ast.Name) and v_.func.id in ("set", "frozenset", "list", "tuple", "dict")
                             and not v_.args and not v_.keywords) or (isinstance(v_, (ast.Set, ast.List, ast.Tuple, ast.Dict)) and not getattr(v_, "elts", getattr(v_, "keys", [])))
                    if empty or (isinstance(v_, ast.Constant) and v_.value is None):
                        continue  # an empty set / the not-yet-built placeholder holds nothing un-normalised
                    norms.append("lstrip" in norm_text(v_))
            right_norm = bool(norms) and all(norms)
        if "startswith" in norm_text(t) or "endswith" in norm_text(t):
            problems.append(f"`{norm_text(t)}` is a prefix/suffix test")
        if left_norm != right_norm:
            problems.append(f"`{norm_text(t)}`: manifest side normalised={left_norm}, caller side normalised={right_norm}")
    # at least one test must normalise both sides (else '/data/x' vs 'data/x' never match)
    both = any("lstrip" in norm_text(t.left) for t in tests) and not problems
    ctx.ob("C15.R7", f, "delete filter normalises both operands", None, both,
           "; ".join(problems) if problems else "both the manifest entry and the caller-supplied name are stripped of leading "
           "slashes before the membership test" if both else "no normalisation at all",
           text="delete-filter")


def groupby_is_over_sorted_input(ctx: Ctx, rid: str) -> None:
    ctx.rule(rid, "every queued operation takes part in the commit: itertools.groupby merges only ADJACENT equal keys, so a "
             "partition built with it (a dict keyed by kind) silently drops every earlier run of a kind unless its input is "
             "sorted by the very same key - `delete(A); append(D); delete(B)` would commit without deleting A", 1)
    n = 0
    for f in sorted(ctx.prog.functions.values(), key=lambda x: x.qname):
        if isinstance(f.node, ast.Lambda):
            continue
        for x in ast.walk(f.node):
            if not (isinstance(x, ast.Call) and (dotted(x.func) or "").split(".")[-1] == "groupby" and x.args):
                continue
            if f.parent is not None and any(x is y for y in ast.walk(f.parent.node)) and f.name != getattr(f.node, "name", ""):
                continue
            n += 1
            key = x.args[1] if len(x.args) > 1 else kwarg(x, "key")

            def _resolve(e: Optional[ast.AST]) -> Optional[ast.AST]:
                if isinstance(e, ast.Name):
                    defs = [a.value for a in ast.walk(f.node) if isinstance(a, ast.Assign) and len(a.targets) == 1
                            and isinstance(a.targets[0], ast.Name) and a.targets[0].id == e.id]
                    if len(defs) == 1:
                        return defs[0]
                return e
            src = _resolve(x.args[0])
            ok = False
            if isinstance(src, ast.Call) and (dotted(src.func) or "") == "sorted" and src.args:
                skey = kwarg(src, "key")
                ok = (key is None and skey is None) or (key is not None and skey is not None
                                                         and norm_text(_resolve(key)) == norm_text(_resolve(skey)))
            ctx.ob(rid, f, "groupby input is sorted by the grouping key", None, ok,
                   f"`{norm_text(x)[:80]}`" + ("" if ok else ": the input is not `sorted(.., key=<the same key>)` - non-adjacent runs of one "
                                               "key overwrite each other"), text=norm_text(x)[:60], line=x.lineno)
    if n == 0:
        ctx.ob(rid, ctx.fn("transaction.Transaction.commit"), "no itertools.groupby in the package", None, True,
               "nothing to judge", nontrivial=False)
