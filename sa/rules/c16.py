"""C16 - commits are durable: the pointer never outruns the data it references."""
from __future__ import annotations

import ast
from typing import List, Optional, Set

from ..cfg import NORMAL, Node, handler_classes
from ..core import Ctx
from ..flow import ALL, find_path, names_in
from ..model import AnalysisError, FunctionInfo, dotted, norm_text
from .common import edge_target, error_escapes, handler_nodes, in_try_body, kwarg, reachable_from

EXPLANATION = (
    "Static analysis of the two local publishers (LocalStorageBackend.write_file, DataFileWriter.close): (R1) dominance + "
    "def-use: os.replace(temp, final) is dominated by os.fsync(fd) where fd refers to that temp (the mkstemp descriptor, or "
    "os.open(temp_name)), and no write to the file lies between the fsync and the rename; the parquet writer is closed "
    "before its fsync; (R2) on every normal path after the rename the directory of the final path is opened and fsync'ed, "
    "and only OSError/AttributeError from that step are tolerated; (R3) the pointer is written after everything it references "
    "(C03.R2) and every metadata-plane write goes through the R1 primitive; (R4) no other way to create a persistent file "
    "exists (C03.R1)."
    " (R1b) the local ParquetWriter is opened on the temp file's path (not on the already-open handle), so close() flushes every byte before the fsync."
    ' (R5) a failing content write / file fsync / writer close / rename leaves the publisher as an exception (handlers on the way re-raise).'
    ' (R6) _get_arrow_filesystem returns a filesystem object only for the S3 backend, so local data files always take the temp + fsync + rename branch.'
    ' (R9) storage effects are synchronous: nothing handed to an executor / thread / timer writes or deletes through the storage layer (function values followed).'
    ' (R10) every os.open feeding an fsync carries no O_PATH / write flags; R1 / R4 / R5 accept a buffered temp file (os.fdopen) only with a flush() between the write and the fsync.'
    ' R2: the directory that is fsynced is dirname(renamed path), taken once. (R11) the byte count os.write returns is consumed - a short write is completed or refused, never published [D22, fixed].')
NOT_DECIDED = "replay of the syscall trace in a power-loss model; filesystem semantics of fsync/rename"


def check(ctx: Ctx) -> None:
    r1(ctx)
    r1b(ctx)
    r2(ctx)
    r5(ctx)
    from .c03 import r1 as c03_r1, r2 as c03_r2
    c03_r2(ctx, "C16.R3")
    c03_r1(ctx, "C16.R4")
    local_writes_take_the_durable_branch(ctx)
    # the pointer must not name a file that a mis-classified (ambiguous) pointer write makes the committer delete
    from .c04 import r1 as c04_r1
    ctx.shared(c04_r1, "C04.R1", "C16.R7", "an ambiguous pointer write is never treated as a clean failure")
    # the object-store analogue of "content flushed before the pointer moves": what a (possibly retried) PUT stores is the whole body
    from .c20 import r13_bodies_are_bytes
    r13_bodies_are_bytes(ctx, "C16.R8")
    no_deferred_storage_effects(ctx)
    fsync_descriptors_are_real(ctx)
    short_writes_completed(ctx)


def _open_flag_names(ctx: Ctx, f: FunctionInfo, e: Optional[ast.AST], at: int, depth: int = 0) -> Optional[Set[str]]:
    """The os.O_* names OR-ed into an os.open flags expression (through locals, parameters bound at the call sites of a helper
    analysed in place, module constants and `getattr(os, "O_X", 0)`); None when a part is not understood."""
    from .common import resolve_value
    if e is None or depth > 6:
        return None
    if isinstance(e, ast.Constant) and e.value == 0:
        return set()
    if isinstance(e, ast.Attribute) and isinstance(e.value, ast.Name) and e.value.id == "os" and e.attr.startswith("O_"):
        return {e.attr}
    if isinstance(e, ast.Call) and isinstance(e.func, ast.Name) and e.func.id == "getattr" and len(e.args) >= 2 \
            and isinstance(e.args[0], ast.Name) and e.args[0].id == "os" and isinstance(e.args[1], ast.Constant) and str(e.args[1].value).startswith("O_"):
        return {str(e.args[1].value)}
    if isinstance(e, ast.BinOp) and isinstance(e.op, ast.BitOr):
        a, b = _open_flag_names(ctx, f, e.left, at, depth + 1), _open_flag_names(ctx, f, e.right, at, depth + 1)
        return None if a is None or b is None else a | b
    if isinstance(e, ast.Name):
        g = ctx.cfg(f)
        defs = ctx.rd(f).reaching(at, e.id)
        if not defs and e.id in f.module.consts:
            return _open_flag_names(ctx, f, f.module.consts[e.id], at, depth + 1)
        out: Set[str] = set()
        for src, sat in resolve_value(ctx, f, e, at):
            if src is None or (isinstance(src, ast.Name) and src.id == e.id):
                return None
            r_ = _open_flag_names(ctx, f, src, sat, depth + 1)
            if r_ is None:
                return None
            out |= r_
        return out
    return None


def fsync_descriptors_are_real(ctx: Ctx, rid: str = "C16.R10") -> None:
    ctx.rule(rid, "every fsync of the publishers works on a descriptor that CAN be synced: the os.open feeding it carries no O_PATH "
             "(fsync on such a descriptor fails with EBADF, and the directory sync is wrapped in a handler that tolerates OSError - "
             "the rename is then never persisted, silently)", 2)
    n = 0
    for q in ("storage_backend.LocalStorageBackend.write_file", "data_operations.DataFileWriter.close"):
        f = ctx.fn(q)
        g = ctx.cfg(f)
        sl = ctx.slicer(f)
        for fs in _fsyncs(ctx, f):
            arg = fs.ast.args[0] if isinstance(fs.ast, ast.Call) and fs.ast.args else None
            opens = [c for c in sl.origins(arg, fs.id)["calls"] if isinstance(c, ast.Call) and (dotted(c.func) or "") == "os.open"]
            for o in opens:
                host = next((x for x in g.nodes if x.ast is not None and x.kind in ("stmt", "call") and any(y is o for y in ast.walk(x.ast))), None)
                fl = o.args[1] if len(o.args) > 1 else kwarg(o, "flags")
                names = _open_flag_names(ctx, f, fl, host.id if host is not None else fs.id)
                n += 1
                if names is None:
                    ctx.ob(rid, f, "fsync descriptor opened without O_PATH", fs, True, f"flags `{norm_text(fl) if fl is not None else None}` not "
                           "evaluable (not judged)", nontrivial=False, text=norm_text(o)[:50])
                    continue
                bad = names & {"O_PATH", "O_WRONLY", "O_APPEND", "O_TRUNC", "O_CREAT", "O_EXCL"}
                ctx.ob(rid, f, "fsync descriptor opened without O_PATH", fs, not bad,
                       f"os.open flags {sorted(names)}" + (f": {sorted(bad)} make the fsync fail (EBADF / EISDIR) or alter the file" if bad else ""),
                       text=norm_text(o)[:50])
    if n == 0:
        raise AnalysisError("no fsync fed by os.open found in the publishers")


STORAGE_MUTATIONS = {"write_file", "write_json", "write_file_cas", "delete_file"}
MUTATING_PRIMS = {"os.replace", "os.rename", "os.remove", "os.unlink", "os.write", "os.fsync", "boto.put_object", "boto.delete_object",
                  "boto.delete_objects", "shutil.rmtree", "shutil.move", "builtins.open"}
DEFER_CALLS = {"submit", "apply_async", "run_in_executor", "start_new_thread", "call_soon", "call_later", "map_async", "imap"}
DEFER_CTORS = {"Thread", "Timer", "Process"}
LOCK_MODULES = ("lock_provider", "file_lock")
BACKEND_MODULES = ("storage_backend", "s3_consistency") + LOCK_MODULES


def no_deferred_storage_effects(ctx: Ctx, rid: str = "C16.R9") -> None:
    ctx.rule(rid, "storage effects are synchronous: no function handed to an executor / thread / timer (submit, map on a pool, "
             "Thread(target=...)) writes or deletes through the storage layer - every ordering and error rule of this framework "
             "(content before pointer, fsync before acknowledge, failed write fails the commit) reads the call sequence of the "
             "committing thread, and a write that runs elsewhere can fail or finish late without the committer noticing", 1)
    n_sites = 0
    for f in sorted(ctx.prog.functions.values(), key=lambda x: x.qname):
        if isinstance(f.node, ast.Lambda) or f.module.short in LOCK_MODULES:
            continue  # a lock's heartbeat thread renews the LOCK object (C19), not table content
        g = ctx.cfg(f)
        for n in g.calls():
            if not isinstance(n.ast, ast.Call) or n.id not in g.reachable():
                continue
            dn = dotted(n.ast.func) or (n.ast.func.attr if isinstance(n.ast.func, ast.Attribute) else "")
            leaf = dn.split(".")[-1]
            recv = norm_text(n.ast.func.value).lower() if isinstance(n.ast.func, ast.Attribute) else ""
            pool_map = leaf == "map" and any(w in recv for w in ("executor", "pool"))
            if not (leaf in DEFER_CALLS or leaf in DEFER_CTORS or pool_map):
                continue
            cands = list(n.ast.args) + [k.value for k in n.ast.keywords if k.arg in ("target", "function", "func", "fn", "callback")]
            fvs: List[FunctionInfo] = []
            for a in cands:
                if isinstance(a, ast.Call) and (dotted(a.func) or "").split(".")[-1] == "partial" and a.args:
                    a = a.args[0]
                fvs += ctx.eff.function_values(a, f)
            if not fvs:
                continue
            n_sites += 1
            bad = []
            for fv in fvs:
                if fv.name in STORAGE_MUTATIONS and ctx.eff.is_storage_class(fv.cls):
                    bad.append(f"{fv.qname} itself")
                    continue
                # effects are recognised at the storage API (and at raw file primitives outside the backends); the retry layer
                # is not entered - its callable parameter is bound to every closure of the package
                for ff, m, _chain in ctx.eff.transitive_calls(fv, stop=lambda t: t.module.short in BACKEND_MODULES):
                    if ctx.eff.storage_op(m) in STORAGE_MUTATIONS or (m.callee is not None and m.callee.kind == "prim" and m.callee.name in MUTATING_PRIMS
                                                                      and not (m.callee.name == "builtins.open" and "w" not in norm_text(m.ast))):
                        bad.append(f"{ff.qname}:{m.lineno} {m.text[:50]}")
                        break
            ctx.ob(rid, f, "work handed to another thread does not write or delete", n, not bad,
                   "the deferred functions only read" if not bad else
                   f"deferred storage effect ({bad[0]}): its failure or completion is invisible to the committing thread - a commit can be "
                   "acknowledged before (or without) the file its pointer names being written")
    if n_sites == 0:
        raise AnalysisError("no executor / thread use found (the parallel scan vanished?)")


def local_writes_take_the_durable_branch(ctx: Ctx, rid: str = "C16.R6") -> None:
    ctx.rule(rid, "local data files always go through temp + fsync + rename: DataFileWriter takes that branch exactly when its "
             "filesystem is None, so _get_arrow_filesystem returns a filesystem object only under isinstance(self.storage, "
             "S3StorageBackend) - for every local configuration it returns None", 2)
    from .common import facts_at
    f = ctx.fn("data_operations.DataFileManager._get_arrow_filesystem")
    g = ctx.cfg(f)
    from .common import effective_returns
    rets = [n for n in g.nodes if n.kind == "return" and n.id in g.reachable()]
    n_none = 0
    for r, v in effective_returns(ctx, f):  # looks through factory helpers analysed in place (`return self._local_fs()`)
        if v is None or (isinstance(v, ast.Constant) and v.value is None):
            n_none += 1
            continue
        s3 = any(pol == "true" and isinstance(e, ast.Call) and (dotted(e.func) or "") == "isinstance" and len(e.args) == 2
                 and "S3StorageBackend" in norm_text(e.args[1]) and norm_text(e.args[0]).endswith("storage")
                 for pol, e, _at in facts_at(ctx, f, r))
        ctx.ob(rid, f, "a filesystem object is returned only for the S3 backend", r, s3,
               "under isinstance(self.storage, S3StorageBackend)" if s3 else
               f"`{r.text}` hands a filesystem to the writer on a local backend: DataFileWriter.open then writes straight to the final "
               "path and close() skips the file fsync, the rename and the directory fsync")
    ctx.ob(rid, f, "local backends get filesystem None", None, n_none >= 1, f"{n_none} return(s) of None", nontrivial=False)
    w = ctx.fn("data_operations.DataFileWriter.open")
    wg = ctx.cfg(w)
    brs = [b for b in wg.nodes if b.kind == "branch" and b.ast is not None and "_filesystem" in norm_text(b.ast)]
    if not brs:
        brs = _derived_publish_mode_branches(ctx, w)
    ctx.ob(rid, w, "the writer's branch is decided by the filesystem argument", brs[0] if brs else None, bool(brs),
           "if self._filesystem: direct write (object store) / else: temp file (renamed in close)")


def _fsyncs(ctx: Ctx, f: FunctionInfo) -> List[Node]:
    return ctx.calls(f, prim="os.fsync")


def r1(ctx: Ctx) -> None:
    ctx.rule("C16.R1", "fsync before rename: in both local publishers os.replace is dominated by an fsync of the temp file's "
             "content, placed after the last write", 4)
    for q, opener in (("storage_backend.LocalStorageBackend.write_file", "tempfile.mkstemp"),
                      ("data_operations.DataFileWriter.close", "os.open")):
        f = ctx.fn(q)
        g = ctx.cfg(f)
        dom = ctx.dom(f, ALL)
        sl = ctx.slicer(f)
        reps = ctx.calls(f, prim="os.replace")
        if not reps:
            ctx.ob("C16.R1", f, "publisher renames", None, False, "os.replace vanished from a local publisher")
            continue
        for rp in reps:
            src = rp.ast.args[0] if isinstance(rp.ast, ast.Call) and rp.ast.args else None
            src_names = names_in(src)
            good: List[Node] = []
            for fs in _fsyncs(ctx, f):
                if fs.id not in dom[rp.id]:
                    continue
                arg = fs.ast.args[0] if isinstance(fs.ast, ast.Call) and fs.ast.args else None
                org = sl.origins(arg, fs.id)
                calls = [c for c in org["calls"] if isinstance(c, ast.Call)]
                if opener == "tempfile.mkstemp":
                    so = sl.origins(src, rp.id)
                    same = any((dotted(c.func) or "") == "tempfile.mkstemp" for c in calls) and \
                        any((dotted(c.func) or "") == "tempfile.mkstemp" for c in so["calls"] if isinstance(c, ast.Call))
                else:
                    same = any((dotted(c.func) or "") == "os.open" and c.args and names_in(c.args[0]) & src_names for c in calls)
                if same:
                    good.append(fs)
            ctx.ob("C16.R1", f, "os.replace dominated by fsync of the same temp file", rp, bool(good),
                   "content reaches the disk before the name becomes visible (audit #33)")
            # no write between fsync and rename
            writers = ctx.calls(f, prim="os.write") + [n for n in g.calls() if n.callee and n.callee.name in ("method.write_batch", "method.write")]
            for fs in good:
                late = [w for w in writers if w.id in reachable_from(g, fs.id, NORMAL) and rp.id in reachable_from(g, w.id, NORMAL)]
                ctx.ob("C16.R1", f, "no write between the fsync and the rename", fs, not late,
                       "the fsync covers the final content")
        if q.endswith("close"):
            wc = [n for n in g.calls() if isinstance(n.ast, ast.Call) and isinstance(n.ast.func, ast.Attribute)
                  and n.ast.func.attr == "close" and "_writer" in norm_text(n.ast.func.value)]
            ok = bool(wc) and all(any(w.id in dom[fs.id] for w in wc) for fs in _fsyncs(ctx, f) if any(fs.id in dom[r.id] for r in reps))
            ctx.ob("C16.R1", f, "parquet writer closed before the fsync", wc[0] if wc else None, ok,
                   "ParquetWriter.close() flushes the footer; fsync comes after it")
        else:
            from .common import temp_fd_writes
            tw = temp_fd_writes(ctx, f)
            wr = [w for w, _fd, _fl in tw]
            rel_fs = [fs for fs in _fsyncs(ctx, f) if any(fs.id in dom[r.id] for r in reps)]
            ok = bool(wr) and all(any(w.id in dom[fs.id] for w in wr) for fs in rel_fs)
            # a buffered file object (os.fdopen) holds the data in user space: between its write and the fsync there is a flush()
            unflushed = [w for w, _fd, fl in tw if fl is not None
                         and not all(any(w.id in dom[x.id] and x.id in dom[fs.id] for x in fl) for fs in rel_fs)]
            ctx.ob("C16.R1", f, "content written before the fsync", wr[0] if wr else None, ok and not unflushed,
                   "os.write dominates os.fsync" if not unflushed else
                   "the content is written through a buffered file object and no flush() lies between the write and the fsync: the "
                   "fsync covers an empty (or partial) file, the rename then publishes bytes that are only in user space")


def r1b(ctx: Ctx) -> None:
    ctx.rule("C16.R1b", "the data-file writer owns its own handle: the local ParquetWriter is opened on the temp file's PATH, so "
             "writer.close() flushes and closes every buffered byte before close() fsyncs the file through a fresh descriptor", 1)
    f = ctx.fn("data_operations.DataFileWriter.open")
    sl = ctx.slicer(f)
    ws = ctx.calls(f, prim="pyarrow.parquet.ParquetWriter")
    if not ws:
        raise AnalysisError("ParquetWriter construction vanished from DataFileWriter.open")
    n_local = 0
    for w in ws:
        where = w.ast.args[0] if isinstance(w.ast, ast.Call) and w.ast.args else kwarg(w.ast, "where")
        org = sl.origins(where, w.id)
        calls = set(org["calls"])
        # `self._temp_file.name`: the slice of a dotted name also follows its prefixes (the object the attribute is read from)
        g = ctx.cfg(f)
        for nm in list(org["names"]):
            parts = nm.split(".")
            for i in range(len(parts) - 1, 0, -1):
                for d in ctx.rd(f).reaching(w.id, ".".join(parts[:i])):
                    dn = g.nodes[d]
                    if isinstance(dn.ast, ast.Assign):
                        calls |= set(sl.origins(dn.ast.value, d)["calls"])
        temp = any(isinstance(c, ast.Call) and (dotted(c.func) or "").split(".")[-1] in ("NamedTemporaryFile", "mkstemp", "TemporaryFile")
                   for c in calls)
        if not temp:
            continue
        n_local += 1
        by_path = any(nm.endswith(".name") for nm in org["names"]) or \
            any((dotted(c.func) or "").endswith("mkstemp") for c in calls if isinstance(c, ast.Call))
        ctx.ob("C16.R1b", f, "ParquetWriter(<temp>.name, ...): opened by path, not on the already-open temp handle", w, by_path,
               f"target `{norm_text(where)}` <- {sorted(n for n in org['names'] if 'temp' in n.lower() or n.endswith('.name'))[:4]}: "
               "pyarrow never flushes a Python file object it was handed; close() then fsyncs (through another descriptor) a "
               "file whose bytes are still in the first handle's buffer - after a power loss the committed data file is empty")
    if n_local < 1:
        raise AnalysisError("no local (temp-file) ParquetWriter found in DataFileWriter.open")


def r5(ctx: Ctx) -> None:
    ctx.rule("C16.R5", "a publisher that could not make the bytes durable says so: an OSError from the content write, the file "
             "fsync, the writer close or the rename leaves write_file / DataFileWriter.close as an exception", 6)
    for q in ("storage_backend.LocalStorageBackend.write_file", "data_operations.DataFileWriter.close"):
        f = ctx.fn(q)
        g = ctx.cfg(f)
        sl = ctx.slicer(f)
        from .common import temp_fd_writes
        steps = [w for w, _fd, _fl in temp_fd_writes(ctx, f)] + ctx.calls(f, prim="os.replace")
        for fs in _fsyncs(ctx, f):
            arg = fs.ast.args[0] if isinstance(fs.ast, ast.Call) and fs.ast.args else None
            org = sl.origins(arg, fs.id)
            is_dir = any(isinstance(c, ast.Call) and (dotted(c.func) or "") == "os.open" and c.args and any(
                    isinstance(c2, ast.Call) and (dotted(c2.func) or "") == "os.path.dirname"
                    for c2 in sl.origins(c.args[0], fs.id)["calls"]) for c in org["calls"])
            if not is_dir:
                steps.append(fs)
        steps += [n for n in g.calls() if isinstance(n.ast, ast.Call) and isinstance(n.ast.func, ast.Attribute)
                  and n.ast.func.attr == "close" and "_writer" in norm_text(n.ast.func.value)]
        for n in steps:
            ok, why = error_escapes(ctx, f, n, "OSError")
            ctx.ob("C16.R5", f, "failure of a durability step propagates", n, ok,
                   f"`{n.text[:50]}`: " + ("an OSError here leaves the function" if ok else
                                          f"{why} - the commit goes on and acknowledges a file that is missing, truncated or not on disk"))


def r2(ctx: Ctx) -> None:
    ctx.rule("C16.R2", "directory entry persisted: after the rename every normal path opens dirname(final) and fsyncs it; only "
             "OSError/AttributeError from that step are tolerated", 4)
    for q in ("storage_backend.LocalStorageBackend.write_file", "data_operations.DataFileWriter.close"):
        f = ctx.fn(q)
        g = ctx.cfg(f)
        sl = ctx.slicer(f)
        for rp in ctx.calls(f, prim="os.replace"):
            dst = rp.ast.args[1] if isinstance(rp.ast, ast.Call) and len(rp.ast.args) > 1 else None
            dirsyncs = []
            for fs in _fsyncs(ctx, f):
                if fs.id not in reachable_from(g, rp.id, NORMAL):
                    continue
                arg = fs.ast.args[0] if isinstance(fs.ast, ast.Call) and fs.ast.args else None
                org = sl.origins(arg, fs.id)
                opens = [c for c in org["calls"] if isinstance(c, ast.Call) and (dotted(c.func) or "") == "os.open"]
                for o in opens:
                    oo = sl.origins(o.args[0] if o.args else None, fs.id)
                    if any(isinstance(c, ast.Call) and (dotted(c.func) or "") == "os.path.dirname" for c in oo["calls"]):
                        dirsyncs.append(fs)
                        # ... and it is THE directory of the published file: dirname applied exactly once to the rename's target
                        # (dirname of an already-taken dirname syncs the grandparent: always succeeds, persists nothing)
                        from .common import value_signature
                        host = next((x for x in g.nodes if x.ast is not None and x.kind in ("stmt", "call") and any(y is o for y in ast.walk(x.ast))), None)
                        so = value_signature(ctx, f, o.args[0], host.id if host is not None else fs.id) if o.args else frozenset()
                        sd = value_signature(ctx, f, dst, rp.id) if dst is not None else frozenset()
                        if len(so) == 1 and len(sd) == 1 and "?" not in so and "?" not in sd:
                            a_, b_ = next(iter(so)), next(iter(sd))
                            want = {f"os.path.dirname({b_})", f"os.path.dirname(({b_}))"}
                            strip = lambda t: t.replace("(", "").replace(")", "")  # noqa: E731
                            okd = strip(a_) == strip(f"os.path.dirname{b_}") or a_ in want
                            ctx.ob("C16.R2", f, "the fsynced directory is dirname(renamed path), taken once", fs, okd,
                                   f"opened `{a_[:70]}` vs rename target `{b_[:50]}`" + ("" if okd else ": a different directory is synced - "
                                                                                         "the new entry is not persisted"), text="dir-of-target")
            w = None
            for s in [d for d, l in g.succ[rp.id] if l in NORMAL]:
                w = find_path(g, s, [g.exit], avoid=[d.id for d in dirsyncs], labels=NORMAL)
                if w:
                    break
            ctx.ob("C16.R2", f, "directory fsync on every normal path after the rename", rp, bool(dirsyncs) and w is None,
                   "the rename itself is made durable", witness=ctx.path_witness(f, w))
            for d in dirsyncs:
                hs = [hn for hn in handler_nodes(ctx, f) if in_try_body(d, hn.stmt)]
                inner = None
                for fr in reversed(d.frames):
                    if fr.kind == "try" and fr.part == "body" and fr.node.handlers:  # type: ignore[attr-defined]
                        inner = fr.node
                        break
                cls: Set[str] = set()
                if inner is not None:
                    for h in inner.handlers:  # type: ignore[attr-defined]
                        cls |= set(handler_classes(h))
                ok = cls <= {"OSError", "AttributeError", "IOError"} or (rp.id in [n.id for n in g.nodes if inner is not None and in_try_body(n, inner)])
                ctx.ob("C16.R2", f, "only OSError/AttributeError tolerated around the directory fsync", d, ok,
                       f"innermost handler classes: {sorted(cls)}")


def short_writes_completed(ctx: Ctx, rid: str = "C16.R11") -> None:
    ctx.rule(rid, "a short write is completed or refused, never published: os.write may store fewer bytes than it was given and "
             "return that count - in the local publisher every os.write's result is kept and compared with the length still to "
             "be written (a discarded count lets a truncated temp file be fsynced, renamed and acknowledged) [D22]", 1)
    f = ctx.fn("storage_backend.LocalStorageBackend.write_file")
    g = ctx.cfg(f)
    ws = [n for n in g.calls() if n.callee is not None and n.callee.kind == "prim" and n.callee.name == "os.write" and n.id in g.reachable()]
    if not ws:
        from .common import temp_fd_writes
        buffered = [w for w, _fd, fl in temp_fd_writes(ctx, f) if fl is not None]
        ctx.ob(rid, f, "the content write cannot be short", buffered[0] if buffered else None, bool(buffered),
               "a buffered file object's write() loops until everything is handed to the kernel" if buffered else
               "no content write found in write_file", text="buffered")
        return
    for w in ws:
        st = w.stmt
        discarded = isinstance(st, ast.Expr) and st.value is w.ast
        var = st.targets[0].id if isinstance(st, ast.Assign) and len(st.targets) == 1 and isinstance(st.targets[0], ast.Name) and st.value is w.ast else None
        # the count is consumed when it is part of a larger expression (`if os.write(..) != len(..)`) or bound to a name some
        # other statement reads (a comparison with the length, or the slice that advances the remaining view)
        if var is None:
            compared = not discarded and not isinstance(st, ast.Assign)
        else:
            compared = any(b is not w and b.ast is not None and any(
                isinstance(x, (ast.Compare, ast.Subscript, ast.BinOp, ast.AugAssign)) and var in names_in(x)
                for x in ast.walk(b.stmt if b.kind != "branch" and b.stmt is not None else b.ast)) for b in g.nodes)
        ctx.ob(rid, f, "the count os.write returns is checked against the length", w, (not discarded) and compared,
               f"`{w.text[:50]}`: " + ("its count decides whether more has to be written" if (not discarded) and compared else
                                      "the returned count is discarded - a short write is fsynced, renamed and published as a truncated file"),
               text=norm_text(w.ast)[:40])


def _derived_publish_mode_branches(ctx: Ctx, w: FunctionInfo) -> List[Node]:
    """The decision carried in a derived attribute: `if not self._atomic_publish:` in open(), where the constructor sets
    `self._atomic_publish = (not filesystem) if atomic_publish is None else atomic_publish` and every construction site of the
    writer either omits the keyword or passes a value that is - by a single assignment in the caller's constructor -
    `not <the very expression it hands over as filesystem>`.  Then the attribute is `not filesystem` in every writer, and the
    temp-file side must be its TRUE side."""
    wg = ctx.cfg(w)
    cls = w.cls
    init = cls.methods.get("__init__") if cls is not None else None
    if init is None:
        return []
    fs_param = next((p.name for p in init.params if "filesystem" in p.name), None)
    if fs_param is None:
        return []

    def single_self_assign(m: FunctionInfo, attr: str) -> Optional[ast.AST]:
        vals = [x.value for x in ast.walk(m.node) if isinstance(x, ast.Assign) and len(x.targets) == 1 and isinstance(x.targets[0], ast.Attribute)
                and x.targets[0].attr == attr and isinstance(x.targets[0].value, ast.Name) and x.targets[0].value.id == (m.self_name() or "self")]
        return vals[0] if len(vals) == 1 else None

    def is_not(e: Optional[ast.AST], what: str) -> bool:
        return isinstance(e, ast.UnaryOp) and isinstance(e.op, ast.Not) and norm_text(e.operand) == what

    out: List[Node] = []
    for b in wg.nodes:
        if b.kind != "branch" or b.ast is None:
            continue
        t, neg = b.ast, False
        while isinstance(t, ast.UnaryOp) and isinstance(t.op, ast.Not):
            t, neg = t.operand, not neg
        if not (isinstance(t, ast.Attribute) and isinstance(t.value, ast.Name) and t.value.id == (w.self_name() or "self")):
            continue
        e = single_self_assign(init, t.attr)
        if any(isinstance(x, ast.Assign) and any(isinstance(tg, ast.Attribute) and tg.attr == t.attr for tg in x.targets)
               for m_ in cls.methods.values() if m_ is not init for x in ast.walk(m_.node)):
            continue  # re-assigned outside the constructor
        kw = None
        if is_not(e, fs_param):
            ok = True
        elif isinstance(e, ast.IfExp) and isinstance(e.test, ast.Compare) and len(e.test.ops) == 1 and isinstance(e.test.left, ast.Name) \
                and isinstance(e.test.comparators[0], ast.Constant) and e.test.comparators[0].value is None \
                and ((isinstance(e.test.ops[0], ast.Is) and is_not(e.body, fs_param) and norm_text(e.orelse) == e.test.left.id)
                     or (isinstance(e.test.ops[0], ast.IsNot) and is_not(e.orelse, fs_param) and norm_text(e.body) == e.test.left.id)):
            kw, ok = e.test.left.id, True
        else:
            continue
        if kw is not None:
            # every construction site: the keyword is omitted, or is `not <its own filesystem argument>` by a single assignment
            pidx = [p.name for p in init.params if p.name != init.self_name()].index(fs_param)
            for f in ctx.prog.functions.values():
                if isinstance(f.node, ast.Lambda):
                    continue
                for n in ctx.cfg(f).calls():
                    if not (n.callee is not None and n.callee.kind == "ctor" and n.callee.cls is cls and isinstance(n.ast, ast.Call)):
                        continue
                    given = kwarg(n.ast, kw)
                    if given is None:
                        continue
                    fs_arg = n.ast.args[pidx] if pidx < len(n.ast.args) else kwarg(n.ast, fs_param)
                    val = given
                    if isinstance(given, ast.Attribute) and isinstance(given.value, ast.Name) and given.value.id == (f.self_name() or "self") and f.cls is not None:
                        ci = f.cls.methods.get("__init__")
                        val = single_self_assign(ci, given.attr) if ci is not None else None
                    if fs_arg is None or not is_not(val, norm_text(fs_arg)):
                        ok = False
        if not ok:
            continue
        # polarity: the temp file is created on the side where the attribute is TRUE
        tside = edge_target(wg, b, "false" if neg else "true")
        oside = edge_target(wg, b, "true" if neg else "false")
        temps = [n for n in wg.calls() if n.callee is not None and n.callee.kind == "prim" and n.callee.name.startswith("tempfile.")]
        if tside is None or not temps:
            continue
        rt = reachable_from(wg, tside, NORMAL)
        ro = reachable_from(wg, oside, NORMAL) if oside is not None else set()
        if all(x.id in rt and x.id not in ro for x in temps):
            out.append(b)
    return out
