"""C17 - no operation escapes the table root."""
from __future__ import annotations

import ast
from typing import Dict, List, Optional, Set, Tuple

from ..cfg import NORMAL, Node
from ..core import Ctx
from ..flow import ALL, find_path, names_in, rhs_of
from ..model import AnalysisError, ClassInfo, FunctionInfo, dotted, norm_text
from .common import effective_returns, is_canonical_base_call, edge_target, kwarg, reachable_from

EXPLANATION = (
    "Static analysis of path provenance: (R1) an interprocedural taint-style def-use analysis - every filesystem sink of the "
    "package (open, os.open/remove/unlink/replace/walk/makedirs, os.path.exists/getsize/getmtime, tempfile.*, "
    "shutil.disk_usage, ParquetWriter) must take a path whose every reaching definition is a sanitiser result "
    "(_resolve_path, _get_arrow_path, _real_base_path), a temp name created in a sanitised directory, a component of an "
    "os.walk over a sanitised root, or an attribute/parameter whose every assignment / call site is itself sanitised "
    "(parameters are discharged at their package call sites); (R2) the sanitiser's shape: it returns only after "
    "commonpath([realpath(base), realpath(joined)]) == realpath(base), else raises ValueError; absolute inputs are re-rooted; "
    "containment is never a string-prefix test; the absolute branch of _get_arrow_path has the same shape; (R3) "
    "open_parquet_source validates before opening; listings raise on '..'."
    ' Also: every return of the two sanitisers is sanitised (no prefix-tested fast path).'
    " (R4) no lexical path normalisation (normpath / abspath) anywhere in the package: '..' reaches the resolver's realpath + boundary check unfolded."
    ' (R5) key mapping round trip by scenario evaluation incl. sibling-prefix and doubled-slash keys (C20.R9); (R6) on S3 the root is enforced by _get_s3_key: only the backend, the range reader and the lock providers hold the raw client, and every key they use comes from _get_s3_key / create_lock.'
    ' R2: the canonical paths are compared unaltered (no casefold / lower / replace); R3: os.walk does not follow symlinks, every path handed out passed the escape test.'
    " R2 finds the canonical root by role (a parameterless method / new property whose every return is realpath(self.base_path), evaluated at the time of the check - not an attribute stored at construction) and decides the re-rooting clause by scenario over nine spellings ('/../x', '//x', '/a/../../x' ...): what reaches realpath() is the base joined with the input minus its leading slashes, component for component."
    ' (R7) an escaping LISTED path aborts the collection before anything is classified or deleted (C07.R3).'
    " R2 decides a RE-IMPLEMENTED containment test (no commonpath: path components, PurePath, a predicate helper) by scenario - nothing is run: the sanitiser is walked from the point where root and candidate are both canonical with 14 (root, candidate) pairs in the store; inside candidates must reach the return, siblings sharing the prefix, parents, '/', unrelated and case-different paths must end in ValueError. (R8) the backend-kind dispatch of _get_arrow_path is exhaustive: a concrete StorageBackend class that is built somewhere in the package and is neither the local nor the S3 backend (nor derived from one) must be tested for by the dispatch (or by what it calls), else tables opened through it resolve data-file paths with the unchecked unknown-backend default."
)
NOT_DECIDED = "behaviour of realpath on symlink arrangements at run time; TOCTOU between check and use"

SANITISERS = {"_resolve_path", "_get_arrow_path", "_real_base_path"}
FS_SINKS = {"builtins.open": 0, "os.open": 0, "os.remove": 0, "os.unlink": 0, "os.walk": 0, "os.makedirs": 0, "os.rmdir": 0,
            "os.path.exists": 0, "os.path.getsize": 0, "os.path.getmtime": 0, "os.path.isfile": 0, "os.listdir": 0,
            "shutil.disk_usage": 0, "os.stat": 0, "os.scandir": 0, "os.mkdir": 0, "os.chmod": 0, "os.truncate": 0,
            "shutil.rmtree": 0, "pyarrow.parquet.ParquetWriter": 0}
TWO_PATH_SINKS = {"os.replace", "os.rename", "shutil.move", "shutil.copy", "shutil.copyfile", "os.link", "os.symlink"}
# public utility classes / functions whose path parameters are constrained at every call site inside the package
UTILITY_OK = {
    "datashard.file_lock.file_lock": "public context-manager utility; not used by the table code",
    "datashard.data_operations.DataFileReader": "public reader utility: inside the package it only receives open file objects from open_parquet_source",
    "datashard.integrity.IntegrityChecker.compute_file_checksum": "public utility: discharged at its package call sites",
    "datashard.disk_utils.get_disk_space": "public utility: discharged at its package call sites",
    "datashard.disk_utils.check_disk_space": "public utility: discharged at its package call sites",
}


class Taint:
    def __init__(self, ctx: Ctx) -> None:
        self.ctx = ctx
        self.memo: Dict[Tuple[str, int, int], bool] = {}
        self.why: Dict[Tuple[str, int, int], str] = {}

    def safe(self, f: FunctionInfo, e: Optional[ast.AST], at: int, depth: int = 0) -> Tuple[bool, str]:
        if e is None:
            return False, "missing path argument"
        if depth > 14:
            return False, "provenance chain too deep"
        ctx = self.ctx
        g = ctx.cfg(f)
        if isinstance(e, ast.Constant):
            return (False, f"constant path {e.value!r}")
        if isinstance(e, ast.Call):
            fn = dotted(e.func) or ""
            leaf = fn.split(".")[-1]
            if leaf in SANITISERS:
                return True, f"sanitiser {leaf}()"
            if fn in ("os.path.dirname", "os.path.realpath", "os.path.abspath", "os.path.normpath", "str", "os.fspath"):
                return self.safe(f, e.args[0] if e.args else None, at, depth + 1)
            if fn == "os.path.join":
                ok0, w0 = self.safe(f, e.args[0] if e.args else None, at, depth + 1)
                if not ok0:
                    return False, "join of " + w0
                for a in e.args[1:]:
                    ok, w = self.safe(f, a, at, depth + 1)
                    if not ok and not self._walk_component(f, a, at):
                        return False, f"join(safe, {norm_text(a)}): component is neither a walk entry nor sanitised"
                return True, "join(sanitised root, walk entries)"
            if fn in ("tempfile.mkstemp", "tempfile.NamedTemporaryFile"):
                d = kwarg(e, "dir")
                ok, w = self.safe(f, d, at, depth + 1)
                return ok, f"{fn}(dir={norm_text(d) if d is not None else None}): {w}"
            if fn == "os.open":
                return self.safe(f, e.args[0] if e.args else None, at, depth + 1)
            if fn == "os.walk":
                return self.safe(f, e.args[0] if e.args else None, at, depth + 1)
            cal = ctx.prog.resolve_call(e, f)
            if cal.kind == "func" and cal.funcs:
                # a package function returning a path: every return must be safe
                oks = []
                for t in cal.funcs:
                    tg = ctx.cfg(t)
                    rets = [n for n in tg.nodes if n.kind == "return" and n.id in tg.reachable()]
                    for r in rets:
                        oks.append(self.safe(t, r.ast.value, r.id, depth + 1))  # type: ignore[union-attr]
                if oks and all(o for o, _w in oks):
                    return True, f"{fn}() returns sanitised paths"
                return False, f"{fn}() may return an unsanitised path"
            return False, f"call {fn}()"
        if isinstance(e, ast.Name):
            defs = ctx.rd(f).reaching(at, e.id)
            if not defs:
                return False, f"free variable {e.id}"
            for d in defs:
                if d == g.entry:
                    ok, w = self.param_safe(f, e.id, depth + 1)
                    if not ok:
                        return False, w
                    continue
                dn = g.nodes[d]
                rhs = rhs_of(dn, e.id)
                if dn.kind == "stmt" and isinstance(dn.ast, ast.Assign) and isinstance(dn.ast.targets[0], (ast.Tuple, ast.List)) \
                        and not isinstance(dn.ast.value, (ast.Tuple, ast.List)):
                    rhs = dn.ast.value  # fd, temp_path = mkstemp(...)
                if dn.kind == "loop":
                    rhs = dn.ast.iter  # type: ignore[union-attr]
                ok, w = self.safe(f, rhs, d, depth + 1)
                if not ok:
                    return False, f"{e.id} <- {w}"
            return True, f"{e.id}: all definitions sanitised"
        if isinstance(e, ast.Attribute):
            dn = dotted(e)
            sn = f.self_name()
            if dn and sn and dn.startswith(sn + ".") and dn.count(".") >= 1:
                parts = dn.split(".")
                attr = parts[1]
                oc = f.owner_class()
                if oc is None:
                    return False, dn
                if len(parts) > 2 and parts[2] == "name":
                    # self._temp_file.name
                    return self.attr_safe(oc, attr, depth + 1)
                # a local redefinition inside this function?
                defs = ctx.rd(f).reaching(at, dn)
                if defs:
                    for d in defs:
                        ok, w = self.safe(f, rhs_of(g.nodes[d], dn), d, depth + 1)
                        if not ok:
                            return False, f"{dn} <- {w}"
                    return True, f"{dn}: local definitions sanitised"
                return self.attr_safe(oc, attr, depth + 1)
            if isinstance(e.value, ast.Name) and e.attr == "name":
                return self.safe(f, e.value, at, depth + 1)
            return False, f"attribute {norm_text(e)}"
        if isinstance(e, ast.IfExp):
            a, wa = self.safe(f, e.body, at, depth + 1)
            b, wb = self.safe(f, e.orelse, at, depth + 1)
            return a and b, wa if not a else wb
        if isinstance(e, ast.BoolOp):
            for v in e.values:
                if isinstance(v, ast.Constant):
                    continue
                ok, w = self.safe(f, v, at, depth + 1)
                if not ok:
                    return False, w
            return True, "all alternatives sanitised"
        return False, f"expression {norm_text(e)[:40]}"

    def _walk_component(self, f: FunctionInfo, e: ast.AST, at: int) -> bool:
        """Is `e` a directory entry produced by os.walk/os.listdir (a plain name, cannot contain separators)?"""
        if not isinstance(e, ast.Name):
            return False
        g = self.ctx.cfg(f)
        for d in self.ctx.rd(f).reaching(at, e.id):
            dn = g.nodes[d]
            if dn.kind != "loop":
                return False
            it = dn.ast.iter  # type: ignore[union-attr]
            if isinstance(it, ast.Name):
                # inner loop over `files` from `for root, dirs, files in os.walk(...)`
                for d2 in self.ctx.rd(f).reaching(d, it.id):
                    n2 = g.nodes[d2]
                    if not (n2.kind == "loop" and "os.walk" in norm_text(n2.ast.iter)):  # type: ignore[union-attr]
                        return False
                continue
            if not ("os.walk" in norm_text(it) or "os.listdir" in norm_text(it)):
                return False
        return True

    def attr_safe(self, ci: ClassInfo, attr: str, depth: int) -> Tuple[bool, str]:
        key = ("attr:" + ci.qname, hash(attr), 0)
        if key in self.memo:
            return self.memo[key], self.why[key]
        self.memo[key], self.why[key] = True, "(recursive)"
        ctx = self.ctx
        found = False
        for c in ctx.prog.mro(ci):
            for m in c.methods.values():
                sn = m.self_name()
                g = ctx.cfg(m)
                for n in g.nodes:
                    if n.kind == "stmt" and isinstance(n.ast, (ast.Assign, ast.AnnAssign)):
                        tg = n.ast.targets[0] if isinstance(n.ast, ast.Assign) else n.ast.target
                        if isinstance(tg, ast.Attribute) and dotted(tg) == f"{sn}.{attr}":
                            v = n.ast.value
                            if isinstance(v, ast.Constant) and v.value is None:
                                continue
                            found = True
                            ok, w = self.safe(m, v, n.id, depth + 1)
                            if not ok:
                                self.memo[key], self.why[key] = False, f"self.{attr} assigned in {m.name}: {w}"
                                return self.memo[key], self.why[key]
        if not found:
            self.memo[key], self.why[key] = False, f"self.{attr} has no assignment"
        else:
            self.why[key] = f"self.{attr}: every assignment sanitised"
        return self.memo[key], self.why[key]

    def param_safe(self, f: FunctionInfo, pname: str, depth: int) -> Tuple[bool, str]:
        key = ("param:" + f.qname, hash(pname), 0)
        if key in self.memo:
            return self.memo[key], self.why[key]
        self.memo[key], self.why[key] = True, "(recursive)"
        ctx = self.ctx
        # closures: a free variable of a nested function is a local of the parent
        if not any(p.name == pname for p in f.params):
            self.memo[key], self.why[key] = False, f"{pname} is not a parameter of {f.name}"
            return self.memo[key], self.why[key]
        target = f
        if f.name == "__init__" and f.cls is not None:
            sites = ctx.eff.call_sites.get(f.qname, [])
        else:
            sites = ctx.eff.call_sites.get(f.qname, [])
        if not sites:
            self.memo[key], self.why[key] = False, f"parameter {pname} of {f.qname} has no package call site (public entry point)"
            return self.memo[key], self.why[key]
        for caller, n in sites:
            ctop = caller
            while ctop.parent is not None:
                ctop = ctop.parent
            if ctop.qname in UTILITY_OK:
                continue  # a public utility forwarding its own parameter (not used by the table code)
            arg = ctx.eff.bind_arg(n.ast, target, pname, isinstance(n.ast.func, ast.Attribute))  # type: ignore[arg-type,union-attr]
            if arg is None:
                p = next(p for p in f.params if p.name == pname)
                if p.default is not None:
                    continue
                self.memo[key], self.why[key] = False, f"{pname} not bound at {caller.qname}:{n.lineno}"
                return self.memo[key], self.why[key]
            ok, w = self.safe(caller, arg, n.id, depth + 1)
            if not ok:
                self.memo[key], self.why[key] = False, f"{f.name}({pname}=...) at {caller.file}:{n.lineno}: {w}"
                return self.memo[key], self.why[key]
        self.why[key] = f"{pname}: all {len(sites)} call site(s) pass sanitised paths"
        return self.memo[key], self.why[key]


def fs_sinks(ctx: Ctx) -> List[Tuple[FunctionInfo, Node, List[ast.AST], str]]:
    out = []
    for f in ctx.prog.functions.values():
        for n in ctx.cfg(f).calls():
            c = n.callee
            if c is None or c.kind != "prim" or not isinstance(n.ast, ast.Call):
                continue
            if c.name in FS_SINKS:
                a = n.ast.args[FS_SINKS[c.name]] if len(n.ast.args) > FS_SINKS[c.name] else None
                if a is None:
                    continue
                out.append((f, n, [a], c.name))
            elif c.name in TWO_PATH_SINKS:
                out.append((f, n, list(n.ast.args[:2]), c.name))
    return out


def r1(ctx: Ctx) -> None:
    ctx.rule("C17.R1", "sink provenance: every filesystem sink takes a sanitised path on every definition chain (parameters "
             "discharged at their call sites)", 25)
    t = Taint(ctx)
    for f, n, args, what in fs_sinks(ctx):
        top = f
        while top.parent is not None:
            top = top.parent
        util = UTILITY_OK.get(top.qname) or (UTILITY_OK.get(top.cls.qname) if top.cls else None)
        if top.name in SANITISERS or (top.name == "_get_arrow_path"):
            # inside the sanitisers themselves only realpath/commonpath run; any real sink there would be reported
            pass
        results = [t.safe(f, a, n.id) for a in args]
        ok = all(o for o, _w in results)
        why = "; ".join(w for _o, w in results)
        if not ok and util:
            ctx.ob("C17.R1", f, f"{what} sink", n, True, f"allow-listed utility: {util} (local provenance: {why})", nontrivial=False)
            continue
        if not ok and top.module.short == "file_lock" and top.cls is not None:
            ok2, w2 = t.attr_safe(top.cls, "lock_file", 0)
            # FileLock is constructed by LocalLockProvider with a resolved path; file_lock() utility is allow-listed
            ctx.ob("C17.R1", f, f"{what} sink", n, ok2, f"lock file path: {w2} (FileLock is constructed by LocalLockProvider, "
                   f"whose only package caller LocalStorageBackend.create_lock passes _resolve_path(path))", nontrivial=True)
            continue
        ctx.ob("C17.R1", f, f"{what} sink", n, ok, why)
    # create_lock resolves the lock path
    cl = ctx.fn("storage_backend.LocalStorageBackend.create_lock")
    ctor = [n for n in ctx.cfg(cl).calls() if n.callee and n.callee.kind == "ctor"]
    ok = False
    for c in ctor:
        ok, w = t.safe(cl, c.ast.args[0] if isinstance(c.ast, ast.Call) and c.ast.args else None, c.id)
    ctx.ob("C17.R1", cl, "lock file path is resolved inside the table root", ctor[0] if ctor else None, ok, "LocalLockProvider(_resolve_path(path))")
    # every public LocalStorageBackend method resolves its path argument
    lb = ctx.prog.cls("storage_backend.LocalStorageBackend")
    for m in lb.methods.values():
        if m.name.startswith("_") or m.is_property:
            continue
        pp = [p.name for p in m.params if p.name in ("path", "prefix")]
        if not pp:
            continue
        res = ctx.calls(m, name="_resolve_path")
        delegates = [n for n in ctx.cfg(m).calls() if any(x.cls is lb and not x.name.startswith("_") for x in ctx.eff.callees(m, n))]
        ctx.ob("C17.R1", m, f"{m.name}({pp[0]}) resolves or delegates", None, bool(res) or bool(delegates),
               "no public storage method touches the filesystem with an unresolved path", text=m.name)


def inside_branches(ctx: Ctx, f: FunctionInfo) -> List[Node]:
    """Branches on the containment flag, found by ROLE: a Name whose reaching definitions include the commonpath equality."""
    g = ctx.cfg(f)
    out = []
    for b in g.nodes:
        if b.kind == "branch" and isinstance(b.ast, ast.Name):
            defs = ctx.rd(f).reaching(b.id, b.ast.id)
            if any(isinstance(g.nodes[d].ast, ast.Assign) and "commonpath" in norm_text(g.nodes[d].ast.value) for d in defs):
                out.append(b)
        elif b.kind == "branch" and b.ast is not None and "commonpath" in norm_text(b.ast):
            out.append(b)
    return out


def _canonical_returns(ctx: Ctx, f: FunctionInfo) -> List[Node]:
    """returns of a local whose every reaching definition is os.path.realpath(...)"""
    g = ctx.cfg(f)
    rets = []
    for n, v_ in effective_returns(ctx, f):
        if isinstance(v_, ast.Name):
            ds = ctx.rd(f).reaching(n.id, v_.id)
            if ds and all(isinstance(g.nodes[d].ast, ast.Assign) and "os.path.realpath" in norm_text(g.nodes[d].ast.value) for d in ds):
                rets.append(n)
    return rets


CONTAINMENT_PAIRS = [("/data/wh", "/data/wh", True), ("/data/wh", "/data/wh/x.parquet", True), ("/data/wh", "/data/wh/a/b", True),
                     ("/data/wh", "/data/wh2", False), ("/data/wh", "/data/wh2/x", False), ("/data/wh", "/data", False),
                     ("/data/wh", "/", False), ("/data/wh", "/etc/passwd", False), ("/data/wh", "/data/WH/x", False),
                     ("/data/wh", "/data/w", False), ("/data/wh", "/data/whx", False), ("/data/wh", "/other/data/wh/x", False),
                     ("/data/wh", "/data/wh.bak/x", False), ("/data/wh", "/data/wh /x", False)]
_containment_memo: Dict[Tuple[int, str], Optional[List[Tuple[str, str, bool, str]]]] = {}


def _containment_scenarios(ctx: Ctx, f: FunctionInfo, rets: List[Node]) -> Optional[List[Tuple[str, str, bool, str]]]:
    """[(root, candidate, inside?, how the walk ends)] or None when the evaluator cannot follow the function."""
    from .common import explore
    key = (id(ctx), f.qname)
    if key in _containment_memo:
        return _containment_memo[key]
    g = ctx.cfg(f)
    out: Optional[List[Tuple[str, str, bool, str]]] = []
    cand = {r.ast.value.id for r in rets}  # type: ignore[union-attr]
    bases = {t.id for n in g.nodes if n.kind == "stmt" and isinstance(n.ast, ast.Assign) and is_canonical_base_call(ctx, f, n.ast.value)
             for t in n.ast.targets if isinstance(t, ast.Name)}
    cdefs = sorted({d for r in rets for d in ctx.rd(f).reaching(r.id, r.ast.value.id)})  # type: ignore[union-attr]
    bdefs = sorted({n.id for n in g.nodes if n.kind == "stmt" and isinstance(n.ast, ast.Assign) and is_canonical_base_call(ctx, f, n.ast.value)})
    dom = ctx.dom(f, NORMAL)
    both = cdefs + bdefs
    last = [x for x in both if all(y in dom[x] for y in both)]  # the walk starts once root AND candidate are both canonical
    starts = sorted({d2 for d in last[:1] for d2, l in g.succ[d] if l in NORMAL})
    stops = [n.id for n in g.nodes if n.kind in ("raise", "return")]
    if len(cand) != 1 or not bases or not starts:
        out = None
    else:
        for root, c_, want in CONTAINMENT_PAIRS:
            init: Dict[object, object] = {next(iter(cand)): c_}
            init.update({b: root for b in bases})
            ends = set()
            for nid, store, _asm in explore(ctx, f, starts, {}, stop=stops, init=init):
                n_ = g.nodes[nid]
                k_ = "raise:" + str(n_.raised) if n_.kind == "raise" else ("return" if nid in {r.id for r in rets} else n_.kind + "?")
                if any(isinstance(k, tuple) and k[0] == "undecided" for k in store):
                    k_ = "undecided"
                ends.add(k_)
            if len(ends) != 1 or "undecided" in ends:
                out = None
                break
            out.append((root, c_, want, next(iter(ends))))
    _containment_memo[key] = out
    return out


def r2(ctx: Ctx) -> None:
    scenario_ok: Set[str] = set()
    ctx.rule("C17.R2", "sanitiser shape: returns only after commonpath([realpath(base), realpath(joined)]) == realpath(base); "
             "else ValueError; absolute inputs re-rooted; no string-prefix containment", 6)
    for q, var_hint in (("storage_backend.LocalStorageBackend._resolve_path", "full_path"),
                        ("data_operations.DataFileManager._get_arrow_path", "resolved")):
        f = ctx.fn(q)
        g = ctx.cfg(f)
        sl = ctx.slicer(f)
        cps = ctx.calls(f, prim="os.path.commonpath")
        rets_early = _canonical_returns(ctx, f)
        if cps or not rets_early or _containment_scenarios(ctx, f, rets_early) is None:
            ctx.ob("C17.R2", f, "containment uses os.path.commonpath", cps[0] if cps else None, bool(cps),
                   "true path-boundary test (not a string prefix: /data/wh vs /data/wh2)")
        for c in cps:
            org = sl.origins(c.ast, c.id)
            fns = {(dotted(x.func) or "") for x in org["calls"] if isinstance(x, ast.Call)}
            ok = "os.path.realpath" in fns and any(is_canonical_base_call(ctx, f, x) for x in org["calls"])
            ctx.ob("C17.R2", f, "both operands are canonical (realpath / _real_base_path)", c, ok,
                   f"operands derive from {sorted(x for x in fns if 'path' in x)}")
            # ... compared AS THEY ARE: a case-folded / lower-cased / otherwise rewritten copy makes distinct directories of a
            # case-sensitive filesystem compare equal ('<root>/../Warehouse/t' counts as inside 'warehouse/t')
            host = next((n_ for n_ in g.nodes if n_.kind in ("stmt", "branch", "return") and n_.ast is not None
                         and any(y is c.ast for y in ast.walk(n_.ast))), None)
            horg = sl.origins(host.ast, host.id) if host is not None else org
            lossy = sorted({x.func.attr for x in (horg["calls"] | org["calls"]) if isinstance(x, ast.Call) and isinstance(x.func, ast.Attribute)
                            and x.func.attr in ("casefold", "lower", "upper", "normcase", "swapcase", "title", "capitalize", "replace",
                                                "strip", "rstrip", "translate", "encode")})
            ctx.ob("C17.R2", f, "the canonical paths are compared unaltered", c, not lossy,
                   "no string rewriting between realpath and the comparison" if not lossy else
                   f"{lossy} rewrites the canonical path before the containment test: different directories compare equal")
        # the return of the resolved path is dominated by the inside-test; the not-inside edge raises ValueError
        brs = inside_branches(ctx, f)
        rets = _canonical_returns(ctx, f)
        if not cps and rets:
            # no commonpath in sight: the containment test was re-implemented (path components, PurePath, a predicate helper).
            # Decided by scenario instead - nothing is run: the function is walked from the canonicalisation of the candidate
            # with (root, candidate) pairs in the store; an inside candidate must reach the return, every outside one
            # (sibling sharing the prefix, parent, '/', unrelated, case-different) must end in ValueError
            scen = _containment_scenarios(ctx, f, rets)
            if scen is not None:
                wrong = [(r_, c_, want, got) for r_, c_, want, got in scen if got != ("return" if want else "raise:ValueError")]
                for r in rets:
                    ctx.ob("C17.R2", f, "the resolved path is returned only when inside; outside raises ValueError", r, not wrong,
                           f"scenario walk over {len(scen)} (root, candidate) pairs of the re-implemented containment test" + (
                               f" - but candidate {wrong[0][1]!r} under root {wrong[0][0]!r} ends in {wrong[0][3]} "
                               f"(expected {'the return' if wrong[0][2] else 'ValueError'})" if wrong else
                               ": siblings sharing the prefix, parents, '/', unrelated and case-different paths are all refused"))
                if not wrong:
                    scenario_ok.add(q)
                continue
        if not brs or not rets:
            ctx.ob("C17.R2", f, "inside-test guards the return", None, False, "anchor moved: `inside` branch / resolved return not found")
            continue
        for r in rets:
            ok = False
            for b in brs:
                t, fl = edge_target(g, b, "true"), edge_target(g, b, "false")
                if t is not None and r.id in reachable_from(g, t, NORMAL) and fl is not None and r.id not in reachable_from(g, fl, NORMAL) \
                        and b.id in ctx.dom(f, ALL)[r.id]:
                    rs = [g.nodes[x] for x in reachable_from(g, fl, NORMAL) if g.nodes[x].kind == "raise"]
                    ok = bool(rs) and all(x.raised == "ValueError" for x in rs)
            ctx.ob("C17.R2", f, "the resolved path is returned only when inside; outside raises ValueError", r, ok,
                   "escaping paths are rejected with an error, not silently resolved elsewhere")
        # `inside` is the commonpath equality (and False on ValueError)
        flag_names = {b.ast.id for b in brs if isinstance(b.ast, ast.Name)}
        defs = [n for n in g.nodes if n.kind == "stmt" and isinstance(n.ast, ast.Assign) and norm_text(n.ast.targets[0]) in flag_names]
        ok = any("commonpath" in norm_text(d.ast.value) and "==" in norm_text(d.ast.value) for d in defs) and \
            all(("commonpath" in norm_text(d.ast.value)) or (isinstance(d.ast.value, ast.Constant) and d.ast.value.value is False) for d in defs)  # type: ignore[union-attr]
        if not flag_names:
            # the test is the comparison itself (possibly inside a predicate helper): it must be an equality with commonpath
            ok = all(isinstance(b.ast, ast.Compare) and len(b.ast.ops) == 1 and isinstance(b.ast.ops[0], ast.Eq)
                     and "commonpath" in norm_text(b.ast) for b in brs)
        ctx.ob("C17.R2", f, "`inside` is the commonpath equality, False on error", defs[0] if defs else (brs[0] if brs else None), ok, "")
    # every return of a sanitiser on the local-backend path is (a) another sanitiser's result or (b) the realpath'ed value
    # under the inside-test; anything else hands out an unchecked path
    for q in ("storage_backend.LocalStorageBackend._resolve_path", "data_operations.DataFileManager._get_arrow_path"):
        f = ctx.fn(q)
        g = ctx.cfg(f)
        inside_b = inside_branches(ctx, f)
        local_b = [b for b in g.nodes if b.kind == "branch" and "LocalStorageBackend" in b.text]
        for r, v in effective_returns(ctx, f):
            if local_b:
                t = edge_target(g, local_b[0], "true")
                if t is None or r.id not in reachable_from(g, t, NORMAL):
                    continue  # S3 branch / unknown-backend fallback: outside the local-filesystem model
            ok = False
            why = norm_text(v) if v is not None else "None"
            if isinstance(v, ast.Call) and (dotted(v.func) or "").split(".")[-1] in SANITISERS:
                ok = True
            elif isinstance(v, ast.Name):
                defs = ctx.rd(f).reaching(r.id, v.id)
                canon = bool(defs) and all(isinstance(g.nodes[d].ast, ast.Assign) and "os.path.realpath" in norm_text(g.nodes[d].ast.value)
                                           for d in defs if d != g.entry) and g.entry not in defs
                guarded = False
                for b in inside_b:
                    t2, f2 = edge_target(g, b, "true"), edge_target(g, b, "false")
                    if t2 is not None and r.id in reachable_from(g, t2, NORMAL) and (f2 is None or r.id not in reachable_from(g, f2, NORMAL)):
                        guarded = True
                if q in scenario_ok and not guarded:
                    guarded = r.id in {x.id for x in _canonical_returns(ctx, f)}  # decided by the containment scenarios above
                ok = canon and guarded
                why += f" (realpath'ed: {canon}, under the inside-test: {guarded})"
            ctx.ob("C17.R2", f, "returned path is sanitised", r, ok,
                   why + ("" if ok else ": a raw / prefix-tested path is returned without realpath + commonpath (.. and symlink "
                          "components are never resolved)"))
    rp = ctx.fn("storage_backend.LocalStorageBackend._resolve_path")
    g = ctx.cfg(rp)
    joins = ctx.calls(rp, prim="os.path.join")
    bad = []
    for j in joins:
        a = j.ast.args[1] if isinstance(j.ast, ast.Call) and len(j.ast.args) > 1 else None
        # under a branch where the path is absolute the component must be lstrip('/')-ed
        dom = ctx.dom(rp, NORMAL)
        abs_br = [b for b in g.nodes if b.kind == "branch" and ("startswith('/')" in b.text or "isabs" in b.text) and b.id in dom[j.id]]
        under_abs = any(edge_target(g, b, "true") is not None and j.id in reachable_from(g, edge_target(g, b, "true"), NORMAL) for b in abs_br)  # type: ignore[arg-type]
        if under_abs and not (a is not None and "lstrip" in norm_text(a)):
            bad.append(j)
    scen = _rerooting_scenarios(ctx, rp)
    if scen is None:
        ctx.ob("C17.R2", rp, "absolute inputs are re-rooted under the base", bad[0] if bad else (joins[0] if joins else None), bool(joins) and not bad,
               "os.path.join(base, '/etc/passwd') would discard the base: the leading slash is stripped first")
    else:
        wrong = [(p_, got) for p_, got, want in scen if got != want]
        ctx.ob("C17.R2", rp, "absolute inputs are re-rooted under the base", joins[0] if joins else None, not wrong,
               f"scenario walk (nothing is run) with base '/tbl' over {len(scen)} spellings: what reaches realpath() is the base joined "
               "with the input minus its leading slashes, component for component" + (
                   f" - but {wrong[0][0]!r} reaches it as {wrong[0][1]!r}: a '..' that realpath + commonpath would have caught is "
                   "rewritten away (or the base is discarded) before the guard sees it" if wrong else ""))
    rnames = {n.ast.value.id for n in g.nodes if n.kind == "return" and n.id in g.reachable() and isinstance(n.ast.value, ast.Name)}  # type: ignore[union-attr]
    fin = [n for n in g.nodes if n.kind == "stmt" and isinstance(n.ast, ast.Assign) and norm_text(n.ast.targets[0]) in rnames]
    jn = {norm_text(j.ast) for j in joins}
    ok_fin = bool(fin) and all("os.path.realpath" in norm_text(x.ast.value) for x in fin)  # type: ignore[union-attr]
    if not fin:
        # the value is handed on (to a boundary-check helper analysed in place) instead of being held in a local: every value
        # returned derives from realpath(<the joined path>)
        rsl = ctx.slicer(rp)
        rets_ = effective_returns(ctx, rp)
        ok_fin = bool(rets_) and all(v is not None and any(
            isinstance(c, ast.Call) and (dotted(c.func) or "") == "os.path.realpath" and not is_canonical_base_call(ctx, rp, c)
            and any(norm_text(j.ast) in norm_text(c) or (names_in(c) & {t.id for n_ in g.nodes if n_.kind == "stmt" and isinstance(n_.ast, ast.Assign)
                                                                            and norm_text(n_.ast.value) in jn for t in n_.ast.targets if isinstance(t, ast.Name)})
                    for j in joins)
            for c in rsl.origins(v, r.id)["calls"]) for r, v in rets_)
    ctx.ob("C17.R2", rp, "the joined path is canonicalised with realpath", fin[0] if fin else None, ok_fin, "resolves '..' and symlinks")


def r3(ctx: Ctx) -> None:
    ctx.rule("C17.R3", "open_parquet_source validates before opening; listings raise on a path outside the root", 3)
    f = ctx.fn("data_operations.DataFileManager.open_parquet_source")
    g = ctx.cfg(f)
    dom = ctx.dom(f, NORMAL)
    val = ctx.calls(f, name="_get_arrow_path")
    opens = ctx.calls(f, prim="builtins.open") + [n for n in g.calls() if ctx.eff.storage_op(n) in ("open_seekable", "open_file", "read_file")]
    ctx.ob("C17.R3", f, "opens exist", opens[0] if opens else None, bool(opens) and bool(val), "", nontrivial=False)
    for o in opens:
        ctx.ob("C17.R3", f, "_get_arrow_path dominates the open", o, any(v.id in dom[o.id] for v in val),
               "the traversal guard runs first, for the check as well as the value (#47)")
    lf = ctx.fn("storage_backend.LocalStorageBackend.list_files")
    lg = ctx.cfg(lf)
    lsl = ctx.slicer(lf)
    brs = [b for b in lg.nodes if b.kind == "branch" and b.id in lg.reachable() and b.ast is not None
           and ("pardir" in b.text or any("pardir" in nm for nm in lsl.origins(b.ast, b.id)["names"]))]
    ok = False
    for b in brs:
        t = edge_target(lg, b, "true")
        if t is not None and any(lg.nodes[x].kind == "raise" for x in reachable_from(lg, t, NORMAL, avoid=[n.id for n in lg.nodes if n.kind == "loop"])):
            ok = True
    # every relative path computed from a listed entry passes the escape test before the iteration goes on / the function returns
    rels = ctx.calls(lf, prim="os.path.relpath")
    ends = [lg.exit] + [n.id for n in lg.nodes if n.kind == "loop"]
    unguarded = None
    for r_ in rels:
        for s_ in [d for d, l in lg.succ[r_.id] if l in NORMAL]:
            unguarded = unguarded or find_path(lg, s_, ends, avoid=[b.id for b in brs], labels=NORMAL)
    if unguarded is not None:
        # the relative path may be assembled in steps (relpath of the directory once, the file name joined on): what counts is
        # that every path HANDED OUT (appended / yielded) passed the escape test in its own iteration
        outs = [n for n in lg.calls() if isinstance(n.ast, ast.Call) and isinstance(n.ast.func, ast.Attribute) and n.ast.func.attr in ("append", "add")
                and any(fr.kind == "loop" for fr in n.frames) and n.id in lg.reachable()]
        outs += [n for n in lg.nodes if n.kind == "stmt" and n.ast is not None and any(isinstance(y, ast.Yield) for y in ast.walk(n.ast))
                 and any(fr.kind == "loop" for fr in n.frames)]
        tested = set()
        for b in brs:
            tested |= set(names_in(b.ast)) | set(lsl.origins(b.ast, b.id)["names"])
        all_ok = bool(outs)
        for o in outs:
            inner = [fr.node for fr in o.frames if fr.kind == "loop"][-1]
            lp = next((n for n in lg.nodes if n.kind == "loop" and n.ast is inner), None)
            if lp is None:
                raise AnalysisError("loop node of a listing append not found in the CFG")
            body = edge_target(lg, lp, "true")
            w = find_path(lg, body, [o.id], avoid=[b.id for b in brs], labels=NORMAL) if body is not None and body not in [b.id for b in brs] else None
            arg = o.ast.args[0] if isinstance(o.ast, ast.Call) and o.ast.args else o.ast
            related = bool((set(names_in(arg)) | set(lsl.origins(arg, o.id)["names"])) & tested)
            if w is not None or not related:
                all_ok = False
        if all_ok:
            unguarded = None
    ok = ok and bool(rels) and unguarded is None
    # the walk itself stays inside the root: os.walk must not follow directory symlinks (a link to an outside directory would
    # be listed under an inside-looking name that passes the `..` test), and no DirEntry.is_dir()-driven descent replaces it
    for w_ in [n for n in lg.calls() if n.callee is not None and n.callee.kind == "prim" and n.callee.name in ("os.walk", "os.fwalk")]:
        fl_ = kwarg(w_.ast, "followlinks")
        ctx.ob("C17.R3", lf, "the directory walk does not follow symlinks", w_, fl_ is None or (isinstance(fl_, ast.Constant) and fl_.value is False),
               "os.walk(..., followlinks=False)" if fl_ is None or (isinstance(fl_, ast.Constant) and fl_.value is False) else
               "followlinks: a directory symlink leaving the root is listed as if it were table content")
    ctx.ob("C17.R3", lf, "a listed path outside the root raises before it is handed out", brs[0] if brs else None, ok,
           "defence in depth: callers (GC) must not act on an untrustworthy listing (#45)")


LEXICAL_NORMALISERS = {"os.path.normpath", "posixpath.normpath", "ntpath.normpath", "os.path.abspath", "posixpath.abspath"}


def no_lexical_normalisation(ctx: Ctx, rid: str = "C17.R4") -> None:
    ctx.rule(rid, "paths reach the resolver as given: no function of the package collapses '..' lexically (normpath / abspath) - "
             "the resolver's realpath + boundary check is the only place a path is interpreted; a normalised '../x' clamped at a "
             "virtual root silently names another existing file instead of being rejected", 0)
    n = 0
    for f in sorted(ctx.prog.functions.values(), key=lambda x: x.qname):
        if isinstance(f.node, ast.Lambda):
            continue
        g = ctx.cfg(f)
        for c in g.calls():
            if c.id in g.reachable() and c.callee is not None and c.callee.kind == "prim" and c.callee.name in LEXICAL_NORMALISERS:
                n += 1
                ctx.ob(rid, f, "lexical path normalisation", c, False,
                       f"`{c.text[:70]}`: '..' segments are folded away before the boundary check can see them (and symlinks are not "
                       "resolved): an escaping path is accepted as some in-root file, or two spellings of one table diverge")
    ctx.ob(rid, None, "lexical normalisers censused", None, True, f"{n} call(s) of {sorted(LEXICAL_NORMALISERS)}", nontrivial=False)


def only_the_backend_talks_to_s3(ctx: Ctx, rid: str = "C17.R6") -> None:
    ctx.rule(rid, "on S3 the table root is enforced by S3StorageBackend._get_s3_key: no other module holds the raw client (`<x>.s3`), "
             "builds an S3RangeFile or imports boto3 - a reader that opens a bucket key on its own (an absolute s3:// location from "
             "a manifest) is outside the root by construction", 0)
    allowed = {"storage_backend", "lock_provider"}
    n = 0
    for m in sorted(ctx.prog.modules.values(), key=lambda x: x.name):
        if m.short in allowed:
            continue
        for x in ast.walk(m.tree):
            what = None
            if isinstance(x, ast.Attribute) and x.attr == "s3" and isinstance(x.ctx, ast.Load):
                what = f"raw client `{norm_text(x)}`"
            elif isinstance(x, ast.Call) and (dotted(x.func) or "").split(".")[-1] == "S3RangeFile":
                what = "S3RangeFile built outside the backend"
            elif isinstance(x, (ast.Import, ast.ImportFrom)) and any((a.name or "").split(".")[0] == "boto3" for a in x.names) \
                    or (isinstance(x, ast.ImportFrom) and (x.module or "").split(".")[0] == "boto3"):
                what = "boto3 imported"
            if what:
                n += 1
                ctx.ob(rid, None, "S3 is reached only through the storage backend", None, False,
                       f"{what} in {m.short}: requests issued here bypass the key mapping that confines the table to its prefix",
                       text=f"{m.short}:{what}", file=m.relpath, line=getattr(x, "lineno", 0))
    ctx.ob(rid, None, "raw S3 access censused", None, True, f"{n} site(s) outside {sorted(allowed)}", nontrivial=False)


def backend_kinds_are_dispatched(ctx: Ctx, rid: str = "C17.R8") -> None:
    ctx.rule(rid, "the backend-kind dispatch of the read-path sanitiser is exhaustive: a concrete StorageBackend class of the package "
             "that is neither the local nor the S3 backend (nor derived from one) falls into _get_arrow_path's unknown-backend "
             "default - a plain join with no realpath / containment test - unless the dispatch is taught about it", 1)
    from .c20 import family, SB
    base = ctx.prog.cls(f"{SB}.StorageBackend")
    known = {c.qname for nm in ("LocalStorageBackend", "S3StorageBackend") for c in family(ctx, ctx.prog.cls(f"{SB}.{nm}"))}
    built = {(dotted(x.func) or "").split(".")[-1] for m_ in ctx.prog.modules.values() for x in ast.walk(m_.tree) if isinstance(x, ast.Call)}
    # (a mixin deriving StorageBackend that is only ever combined with a real backend is not a kind of its own: it is never built)
    extra = [c for c in family(ctx, base) if c is not base and c.qname not in known and c.name in built]
    f = ctx.fn("data_operations.DataFileManager._get_arrow_path")
    # names the sanitiser (and what it calls, three levels deep) tests with isinstance
    seen_f = {f.qname}
    frontier = [f]
    tested: Set[str] = set()
    for _d in range(4):
        nxt = []
        for fn_ in frontier:
            for x in ast.walk(fn_.node):
                if isinstance(x, ast.Call) and isinstance(x.func, ast.Name) and x.func.id == "isinstance" and len(x.args) == 2:
                    tested |= {(dotted(t_) or "").split(".")[-1] for t_ in (x.args[1].elts if isinstance(x.args[1], ast.Tuple) else [x.args[1]])}
                if isinstance(x, ast.Call):
                    try:
                        cal = ctx.prog.resolve_call(x, fn_)
                    except Exception:
                        cal = None
                    for t_ in (cal.funcs if cal is not None and cal.kind == "func" else []):
                        if t_.qname not in seen_f:
                            seen_f.add(t_.qname)
                            nxt.append(t_)
        frontier = nxt
    missing = sorted(c.name for c in extra if c.name not in tested)
    ctx.ob(rid, f, "every backend kind of the package reaches a checked resolver", None, not missing,
           f"backend classes: local + S3 families ({len(known)}), {len(extra)} other kind(s), all tested by the dispatch" if not missing else
           f"{missing} is a StorageBackend of the package the dispatch never tests for: a table opened through it resolves data-file "
           "paths with the unknown-backend default (os.path.join, no realpath, no containment test) - '../x' and symlinks escape the root",
           text="backend kinds")


def check(ctx: Ctx) -> None:
    only_the_backend_talks_to_s3(ctx)
    backend_kinds_are_dispatched(ctx)
    r1(ctx)
    r2(ctx)
    r3(ctx)
    no_lexical_normalisation(ctx)
    # the S3 root is the key prefix: every path is joined under it, never taken for an already-prefixed / sibling key
    from .c20 import r9_key_roundtrip
    r9_key_roundtrip(ctx, "C17.R5")
    from .c05 import r2 as c05_r2
    # PATHPREFIX (shared generic rule) is reported under C05.R2; C17 relies on R2's commonpath shape instead
    # "storage listings" are path strings reaching the library too: an escaping LISTED path is rejected (the collection aborts)
    # rather than classified and acted on under some other spelling
    from .c07 import r3 as c07_r3
    ctx.shared(c07_r3, "C07.R3", "C17.R7", "an escaping listed path aborts the collection before anything is classified or deleted")


def _rerooting_scenarios(ctx: Ctx, rp: FunctionInfo) -> Optional[List[Tuple[str, object, object]]]:
    """[(input, components reaching realpath(), expected components)] for a fixed set of spellings, or None when the evaluator
    cannot follow the function (the syntactic rule decides then)."""
    from .common import concrete_eval, explore, UNKNOWN
    g = ctx.cfg(rp)
    pn = next((p.name for p in rp.params if p.name not in ("self", "cls")), None)
    rps = [n for n in g.calls() if n.callee is not None and n.callee.kind == "prim" and n.callee.name == "os.path.realpath"
           and isinstance(n.ast, ast.Call) and n.ast.args and not is_canonical_base_call(ctx, rp, n.ast) and n.id in g.reachable()]
    if pn is None or len(rps) != 1:
        return None
    target = rps[0]
    out: List[Tuple[str, object, object]] = []
    base = "/tbl"
    for p_ in ("/etc/passwd", "//etc/passwd", "data/x.parquet", "/data/x.parquet", "/../keep.txt", "/data/../../keep.txt",
               "/./../x", "../x", "/data/sub/../x.bin"):
        env: Dict[str, object] = {pn: p_, (rp.self_name() or "self") + ".base_path": base}
        vals = set()
        for nid, store, _asm in explore(ctx, rp, [g.entry], env, stop=[target.id]):
            if nid != target.id:
                continue
            sc = dict(env)
            sc.update({k: v for k, v in store.items() if isinstance(k, (str, tuple))})
            vals.add(concrete_eval(ctx, rp, target.ast.args[0], sc, nid))  # type: ignore[union-attr]
        if len(vals) != 1 or not isinstance(next(iter(vals)), str):
            return None
        got = [c for c in next(iter(vals)).split("/") if c and c != "."]  # type: ignore[union-attr]
        want = [c for c in base.split("/") if c] + [c for c in p_.split("/") if c and c != "."]  # ('.' names the same directory)
        out.append((p_, got, want))
    return out
