"""C18 - creating a table is idempotent and race-safe."""
from __future__ import annotations

import ast
from typing import Dict, List, Optional, Set

from ..cfg import NORMAL, Node, handler_classes
from ..core import Ctx
from ..flow import ALL, find_path, names_in
from ..model import AnalysisError, FunctionInfo, dotted, norm_text
from .common import (judged_in_callers, call_keywords, path_arg, facts_at, known_null_call, edge_target, handler_exits, handler_nodes, hint_write_nodes, in_handler, is_const, kwarg,
                     reachable_from)

EXPLANATION = (
    "Static analysis of table creation: (R1) dominance: in initialize_table the existence check "
    "(_current_version_info() is not None -> TableExistsError) lies after the lock acquisition and dominates the metadata "
    "write and both pointer writes; the lock is released on every exit; (R2) on CAS backends the first pointer write is "
    "create-if-absent (etag=None) and a CAS conflict becomes TableExistsError; (R3) Table.__init__ initialises only when "
    "refresh() is None, and _initialize_table tolerates TableExistsError only; (R4) def-use: the schema argument flows from "
    "create_table through Table.__init__ into TableMetadata.schemas / current_schema_id; (R5) a schema-less append with no "
    "persisted schema raises; (R6) no fail-open 'table absent' answer (C10.R4)."
    " Also: (R7) the pointer is written after the metadata file, by the two sanctioned writers only; (R8) recovery's listing is complete."
    " (R9) a pointer naming a missing file leads to recovery, not to 'no table' (shared with C10.R2); (R10) no truthiness test of a version number (shared with C10.R12); R2 additionally requires the conflict handler to catch exactly CASConflictError."
    ' (R11) the conditional pointer PUT is never retried (C20.R3); (R12) only the sanctioned functions write the pointer (C09.R1).'
    " (R13) recovery's S3 listing walks every page (C20.R10); (R14) UTC ages (C20.R11); (R15) an AMBIGUOUS create-if-absent pointer write keeps the creator's metadata file (no delete on that path of initialize_table)."
    ' (R16) the schema is written once: stores to TableMetadata.schemas / current_schema_id only in the creation path and the deserialiser.'
    ' (R17) recovery orders versions as integers; (R18) a lost create race is reported as CASConflictError (exact code set, C08.R3).'
    " (R19) the legacy pointer's file name stays in the recovery language (C10.R1)."
    ' (R20) every exception class of the package is defined once (what is raised is what is caught). R2 follows a clean-up handler that re-raises outward to the handler that translates the conflict.')
NOT_DECIDED = "the interleavings; that every caller ends on the same table at run time"

MM = "metadata_manager.MetadataManager"


def one_class_per_exception_name(ctx: Ctx, rid: str = "C18.R20") -> None:
    ctx.rule(rid, "what is raised is what is caught: every exception class of the package is defined ONCE - a second class of the "
             "same name (left behind when the classes moved to another module) is a different type: `except TableExistsError` in "
             "the creator no longer catches the initialiser's TableExistsError, and the loser of a creation race gets an error "
             "instead of the winner's table", 1)
    by_name: Dict[str, List] = {}
    for ci in ctx.prog.classes.values():
        is_exc = any(b.split(".")[-1].endswith(("Error", "Exception")) for b in ci.base_names) or ci.name.endswith(("Error", "Exception"))
        if is_exc:
            by_name.setdefault(ci.name, []).append(ci)
    anyf = ctx.fn("metadata_manager.MetadataManager.initialize_table")
    for nm, cs in sorted(by_name.items()):
        ctx.ob(rid, anyf, f"exception class {nm} is defined once", None, len(cs) == 1,
               f"defined in {sorted(c.module.short for c in cs)}" + ("" if len(cs) == 1 else ": two unrelated types share the name - a handler "
                                                                      "naming one does not catch the other"), text=nm)
    if len(by_name) < 5:
        raise AnalysisError(f"only {len(by_name)} exception classes found in the package")


def check(ctx: Ctx) -> None:
    _check(ctx)
    one_class_per_exception_name(ctx)
    # a pointer naming a missing file must lead to recovery, not to "no table" (which re-initialises over the table)
    from .c10 import r2 as c10_r2
    ctx.shared(c10_r2, "C10.R2", "C18.R9", "an existing table is never taken for an uninitialised one")
    from .c10 import r12 as c10_r12
    c10_r12(ctx, "C18.R10")
    # the create-if-absent PUT decides who initialises: it is sent once (a retry after an ambiguous failure conflicts with its own
    # first attempt: the creator deletes its v0 and every later creator 'loses' too)
    from .c20 import r3 as c20_r3
    ctx.shared(c20_r3, "C20.R3", "C18.R11", "the conditional pointer PUT is never retried")
    # only initialize_table (check-then-act under the lock, CAS create) and commit write the pointer: a bulk / convenience
    # creator writing it on its own has neither the re-check nor the conditional write
    from .c09 import r1_fresh_names
    r1_fresh_names(ctx, "C18.R12")
    # recovery's listing is complete (an existing table is never taken for an uninitialised one)
    from .c20 import r10_listing_exhaustive
    r10_listing_exhaustive(ctx, "C18.R13")
    from .c20 import r11_utc_ages
    r11_utc_ages(ctx, "C18.R14")
    schema_written_once(ctx)
    # the loser of a create race adopts the winner only if its create-if-absent PUT reports the loss as CASConflictError: every
    # precondition-failure answer of the store (412 and 409 ConditionalRequestConflict) must be mapped, nothing else
    from .c08 import r3 as c08_r3
    ctx.shared(c08_r3, "C08.R3", "C18.R18", "a lost create race is reported as a conflict (exact precondition-failure code set)")
    init_ambiguous_keeps_v0(ctx)
    # create_table on a table whose pointer is lost adopts the numerically latest version (not v9 over v10)
    from .c10 import r11 as c10_r11
    c10_r11(ctx, "C18.R17")
    # a legacy table (bare-number pointer, v<N>.metadata.json files) whose pointer is lost must be FOUND by the creator's recovery,
    # not re-initialised: the legacy spelling stays inside the language of the metadata-file regex
    from .c10 import r1 as c10_r1
    ctx.shared(c10_r1, "C10.R1", "C18.R19", "recovery recognises every metadata file name the package ever wrote: an existing table is never taken for an empty directory")


SCHEMA_OWNERS = {
    "datashard.transaction.Table._initialize_table": "creation: the schema handed to create_table / Table(schema=) becomes the first metadata version",
    "datashard.metadata_manager.MetadataManager._dict_to_metadata": "the deserialiser rebuilds what was persisted",
    "datashard.data_structures.TableMetadata.__post_init__": "the empty placeholder of a schema-less table",
    "datashard.metadata_manager.MetadataManager.initialize_table": "creation without a caller-supplied metadata object",
}


def schema_written_once(ctx: Ctx, rid: str = "C18.R16") -> None:
    ctx.rule(rid, "the table's schema is decided at creation and never replaced: every store to TableMetadata.schemas / "
             "current_schema_id (attribute assignment, or the keyword of a TableMetadata(...) / replace(...) call whose value is "
             "not a copy of another metadata object's field) lies in the creation path or the deserialiser - an 'adopt' / 'repair' "
             "step elsewhere lets a second create_table(schema=B) replace the schema rows were already committed under", 3)
    from .common import owner_tops
    fields = ("schemas", "current_schema_id")
    n_sites = 0
    for f in sorted(ctx.prog.functions.values(), key=lambda x: x.qname):
        if isinstance(f.node, ast.Lambda) or judged_in_callers(ctx, f):
            continue
        g = ctx.cfg(f)
        sites = []
        for n in g.nodes:
            if n.id not in g.reachable():
                continue
            if n.kind == "stmt" and isinstance(n.ast, (ast.Assign, ast.AugAssign)):
                tg = n.ast.targets if isinstance(n.ast, ast.Assign) else [n.ast.target]
                for t in tg:
                    if isinstance(t, ast.Attribute) and t.attr in fields:
                        sites.append((n, t.attr, n.ast.value))
                    if isinstance(t, ast.Subscript) and isinstance(t.value, ast.Attribute) and t.value.attr in fields:
                        sites.append((n, t.value.attr, n.ast.value))
            if n.kind == "call" and isinstance(n.ast, ast.Call):
                leaf = (dotted(n.ast.func) or "").split(".")[-1]
                is_md = (n.callee is not None and n.callee.kind == "ctor" and n.callee.cls is not None and n.callee.cls.name == "TableMetadata") \
                    or leaf in ("replace", "_replace")
                if is_md:
                    sites += [(n, k.arg, k.value) for k in n.ast.keywords if k.arg in fields]
                if isinstance(n.ast.func, ast.Attribute) and n.ast.func.attr in ("append", "extend", "insert", "clear", "pop", "remove") \
                        and isinstance(n.ast.func.value, ast.Attribute) and n.ast.func.value.attr == "schemas":
                    sites.append((n, "schemas", n.ast))
        if not sites:
            continue
        owners = owner_tops(ctx, f)
        reasons = [SCHEMA_OWNERS.get(ctx.prog.anchor(o)) for o in owners]
        sanctioned = bool(owners) and all(r is not None for r in reasons)
        for n, fld, v in sites:
            n_sites += 1
            copy_of = isinstance(v, ast.Attribute) and v.attr == fld  # new.schemas = base.schemas
            ctx.ob(rid, f, f"store to {fld} in a sanctioned place", n, sanctioned or copy_of,
                   (reasons[0] if sanctioned else "a plain copy of another metadata object's field") if (sanctioned or copy_of) else
                   f"`{n.text[:70]}` in {f.name} sets the table's schema outside creation: the schema rows were committed under can "
                   "be replaced by a later caller's", text=f"{fld}")
    if n_sites == 0:
        raise AnalysisError("no store to TableMetadata.schemas found (creation path vanished)")


def init_ambiguous_keeps_v0(ctx: Ctx, rid: str = "C18.R15") -> None:
    ctx.rule(rid, "an unknowable outcome of the create-if-absent pointer write keeps the creator's metadata file: in initialize_table "
             "the initial metadata file is deleted only in a handler that catches exactly CASConflictError (the one outcome that "
             "means 'not created by me') - after a timeout / 5xx the pointer may name that file", 1)
    f = ctx.fn(MM + ".initialize_table")
    g = ctx.cfg(f)
    sl = ctx.slicer(f)
    mw = ctx.calls(f, name="_write_metadata_file")
    if not mw:
        raise AnalysisError("_write_metadata_file vanished from initialize_table")
    mpath = names_in(mw[0].ast.args[0]) if isinstance(mw[0].ast, ast.Call) and mw[0].ast.args else set()
    dels = [n for n in g.calls() if n.id in g.reachable() and ctx.eff.storage_op(n) == "delete_file"
            and (names_in(path_arg(n)) & mpath or mpath & set(sl.origins(path_arg(n), n.id)["names"]))]
    for d in dels:
        hs = [fr.handler for fr in d.frames if fr.kind == "try" and fr.part == "handler" and fr.handler is not None]
        outer = hs[0] if hs else None
        cs = handler_classes(outer) if outer is not None else []
        ok = outer is not None and [c.split(".")[-1] for c in cs] == ["CASConflictError"]
        ctx.ob(rid, f, "initial metadata file deleted only after a definite create-if-absent conflict", d, ok,
               f"deleted under except({','.join(cs) or '-'})" + ("" if ok else ": any other failure of the conditional PUT is ambiguous - "
               "if the store applied it, the pointer now names a deleted file and every later creator loses against it forever"))
    ctx.ob(rid, f, "cleanup sites of the initial metadata file enumerated", None, len(dels) >= 1, f"{len(dels)} delete site(s)", nontrivial=False)


def _check(ctx: Ctx) -> None:
    r1(ctx, "C18.R1")
    r2(ctx)
    r3(ctx)
    r4(ctx)
    r5(ctx)
    from .c10 import r4 as c10_r4
    c10_r4(ctx, "C18.R6")
    # creation interrupted / pointer lost: the pointer is written after the metadata file it names, only by the two sanctioned
    # writers (under the metadata lock), and recovery's listing is complete
    from .c03 import r2 as c03_r2
    c03_r2(ctx, "C18.R7")
    from .c20 import r5 as c20_r5
    c20_r5(ctx, "C18.R8")


def r1(ctx: Ctx, rid: str) -> None:
    ctx.rule(rid, "check-then-act under the lock: the existence check follows acquire, raises TableExistsError, and dominates "
             "every write of initialize_table", 4)
    f = ctx.fn(MM + ".initialize_table")
    g = ctx.cfg(f)
    dom = ctx.dom(f, ALL)
    acq = ctx.calls(f, lock="acquire")
    chk = [n for n in g.calls() if any(t.name == "_current_version_info" for t in ctx.eff.callees(f, n))]
    if not acq or not chk:
        ctx.ob(rid, f, "acquire and existence check present", None, False,
               "initialize_table must take the metadata lock and check for an existing (recoverable) table")
        return
    brs = [b for b in g.nodes if b.kind == "branch" and b.stmt is chk[0].stmt]
    ok_raise = False
    guard = None
    for b in brs:
        exists_edge = "true" if "is not None" in b.text else ("false" if "is None" in b.text else "true")
        t = edge_target(g, b, exists_edge)
        if t is not None:
            reach = reachable_from(g, t, NORMAL)
            rs = [g.nodes[x] for x in reach if g.nodes[x].kind == "raise"]
            if rs and all(r.raised == "TableExistsError" for r in rs) and not any(
                    ctx.eff.storage_op(g.nodes[x]) in ("write_file", "write_json", "write_file_cas") for x in reach if g.nodes[x].kind == "call"):
                ok_raise = True
                guard = b
    ctx.ob(rid, f, "existing table -> TableExistsError", brs[0] if brs else chk[0], ok_raise,
           "a valid hint OR any recoverable v*.metadata.json refuses re-initialisation")
    ctx.ob(rid, f, "existence check happens under the lock", chk[0], acq[0].id in dom[chk[0].id],
           "acquire dominates the check (no check-then-act race between two creators)")
    writes = ctx.calls(f, name="_write_metadata_file") + hint_write_nodes(ctx, f)
    for w in writes:
        ctx.ob(rid, f, "existence check dominates the write", w, guard is not None and guard.id in dom[w.id],
               "nothing is written before the table was found absent")
    rel_q = ctx.fn(MM + "._release_lock_safely").qname
    rel = [n for n in g.calls() if ctx.eff.lock_op(n) == "release" or any(t.qname == rel_q for t in ctx.eff.callees(f, n))]
    early = [r for r in rel if any(w.id in reachable_from(g, r.id, NORMAL) for w in writes)]
    ctx.ob(rid, f, "lock held until the pointer is written", rel[0] if rel else None, bool(rel) and not early,
           "no release before the writes")


def r2(ctx: Ctx) -> None:
    ctx.rule("C18.R2", "on CAS backends the first pointer write is create-if-absent and a conflict is TableExistsError", 2)
    f = ctx.fn(MM + ".initialize_table")
    g = ctx.cfg(f)
    cas = [n for n in hint_write_nodes(ctx, f) if ctx.eff.storage_op(n) == "write_file_cas"]
    ctx.ob("C18.R2", f, "conditional first pointer write exists", cas[0] if cas else None, bool(cas),
           "a racing initializer loses loudly")
    for c in cas:
        et = kwarg(c.ast, "etag", 2)
        ctx.ob("C18.R2", f, "etag=None (create only if absent)", c, is_const(et, None), "If-None-Match: *")
        esc, caught = ctx.eff.propagate(f, {"CASConflictError"}, c.frames, record=False)
        ok = False
        caught = list(caught)
        i_ = 0
        while i_ < len(caught):
            h, _c = caught[i_]
            i_ += 1
            hn = next(x for x in g.nodes if x.kind == "handler" and x.ast is h)
            ex = handler_exits(ctx, f, hn)
            if ex["raise"] and all(r.raised == "reraise" for r in ex["raise"]) and not ex["fallthrough"] and not ex["return"] and not ex["loop"]:
                # a clean-up handler that hands the same error on: follow it outward to the handler that translates it
                for r_ in ex["raise"]:
                    e2, c2 = ctx.eff.propagate(f, {"CASConflictError"}, r_.frames, record=False)
                    esc = frozenset(esc) | frozenset(e2)
                    caught += [x for x in c2 if x not in caught]
                continue
            ok = bool(ex["raise"]) and all(r.raised == "TableExistsError" for r in ex["raise"]) and not ex["fallthrough"] and not ex["return"]
            exact = set(handler_classes(h)) == {"CASConflictError"}
            ctx.ob("C18.R2", f, "only a create-if-absent conflict means 'table exists'", hn, exact,
                   f"handler classes {handler_classes(h)}: a transport / permission error on the first pointer write is not a lost race - "
                   "reporting it as TableExistsError makes the caller adopt a table that was never created")
        ctx.ob("C18.R2", f, "CASConflictError -> TableExistsError", c, ok and not esc, "the loser adopts the winner's table")
    for b in [b for b in g.nodes if b.kind == "branch" and "supports_cas" in b.text]:
        t = edge_target(g, b, "true")
        plain = [n for n in hint_write_nodes(ctx, f) if ctx.eff.storage_op(n) != "write_file_cas"]
        hit = [n for n in plain if t is not None and n.id in reachable_from(g, t, NORMAL)]
        ctx.ob("C18.R2", f, "no unconditional pointer write on the CAS branch", b, not hit, "")


def r3(ctx: Ctx) -> None:
    ctx.rule("C18.R3", "loser adopts: Table.__init__ initialises only when refresh() is None; _initialize_table tolerates "
             "TableExistsError and nothing broader", 3)
    ti = ctx.fn("transaction.Table.__init__")
    g = ctx.cfg(ti)
    init_calls = ctx.calls(ti, name="_initialize_table")
    ok = all(known_null_call(ctx, ti, c, "refresh") for c in init_calls)
    ctx.ob("C18.R3", ti, "initialise only when no metadata is readable", init_calls[0] if init_calls else None,
           ok and bool(init_calls), "the recovery-aware refresh() decides, not a directory probe")
    it = ctx.fn("transaction.Table._initialize_table")
    ig = ctx.cfg(it)
    ic = [n for n in ig.calls() if any(t.name == "initialize_table" for t in ctx.eff.callees(it, n))]
    for c in ic:
        esc, caught = ctx.eff.propagate(it, {"Exception"}, c.frames, record=False)
        cls: Set[str] = set()
        for h, _x in caught:
            cls |= set(handler_classes(h))
        ctx.ob("C18.R3", it, "only TableExistsError is tolerated", c, cls == {"TableExistsError"} and bool(esc),
               f"handler classes around initialize_table: {sorted(cls)} - a storage error during creation must surface")
    for hn in handler_nodes(ctx, it):
        ex = handler_exits(ctx, it, hn)
        writes = [n for n in ig.calls() if in_handler(n, hn.ast) and (ctx.eff.storage_op(n) or any(t.name == "initialize_table" for t in ctx.eff.callees(it, n)))]  # type: ignore[arg-type]
        ctx.ob("C18.R3", it, "the TableExistsError handler does not re-initialise", hn, not writes,
               "the loser uses the existing metadata", text=",".join(handler_classes(hn.ast)))  # type: ignore[arg-type]


def r4(ctx: Ctx) -> None:
    ctx.rule("C18.R4", "the schema supplied at creation is persisted: create_table -> Table(schema=) -> _initialize_table -> "
             "TableMetadata(schemas=[schema], current_schema_id=schema.schema_id)", 3)
    ct = ctx.fn("iceberg.create_table")
    tc = [n for n in ctx.cfg(ct).calls() if n.callee and n.callee.kind == "ctor" and n.callee.cls and n.callee.cls.name == "Table"]
    ok = bool(tc) and norm_text(kwarg(tc[0].ast, "schema", 2)) == "schema"
    ctx.ob("C18.R4", ct, "create_table passes schema to Table", tc[0] if tc else None, ok, "")
    ti = ctx.fn("transaction.Table.__init__")
    ic = ctx.calls(ti, name="_initialize_table")
    ok = bool(ic) and "schema" in names_in(ic[0].ast)
    ctx.ob("C18.R4", ti, "Table.__init__ passes schema to _initialize_table", ic[0] if ic else None, ok, "")
    it = ctx.fn("transaction.Table._initialize_table")
    g = ctx.cfg(it)
    ctors = [n for n in g.calls() if n.callee and n.callee.kind == "ctor" and n.callee.cls and n.callee.cls.name == "TableMetadata"]
    kws = {c.id: call_keywords(ctx, it, c) for c in ctors}
    with_schema = [c for c in ctors if kws[c.id].get("schemas")]
    ok = False
    for c in with_schema:
        sc = kws[c.id]["schemas"][0]
        cids = kws[c.id].get("current_schema_id", [])
        cid = cids[0] if cids else None
        def _given(e):  # type: ignore[no-untyped-def]
            """the arm of `a if schema is None else b` / `b if schema is not None else a` that applies when a schema was given"""
            if isinstance(e, ast.IfExp):
                t = e.test
                if isinstance(t, ast.Compare) and len(t.ops) == 1 and isinstance(t.left, ast.Name) and t.left.id == "schema" \
                        and isinstance(t.comparators[0], ast.Constant) and t.comparators[0].value is None:
                    if isinstance(t.ops[0], ast.Is):
                        return e.orelse, True
                    if isinstance(t.ops[0], ast.IsNot):
                        return e.body, True
            return e, False
        sc, g1 = _given(sc)
        cid, g2 = _given(cid) if cid is not None else (None, False)
        ok = isinstance(sc, ast.List) and "schema" in names_in(sc) and cid is not None and norm_text(cid) == "schema.schema_id"
        # the schema is only stored when one was given: the constructor call, or the statement that puts `schemas` into
        # the keyword dict, is reached under `schema is not None`
        sites = [c] + [n for n in g.nodes if n.kind == "stmt" and isinstance(n.ast, ast.Assign) and isinstance(n.ast.targets[0], ast.Subscript)
                       and isinstance(n.ast.targets[0].slice, ast.Constant) and n.ast.targets[0].slice.value == "schemas"]
        guarded = any(any(pol in ("nonnull", "true") and isinstance(e, ast.Name) and e.id == "schema" for pol, e, _a in facts_at(ctx, it, s_))
                      for s_ in sites)
        ok = ok and (guarded or (g1 and g2))
    ctx.ob("C18.R4", it, "TableMetadata carries the schema and its id", with_schema[0] if with_schema else None, ok,
           "schemas=[schema], current_schema_id=schema.schema_id under `schema is not None`")
    im = [n for n in g.calls() if any(t.name == "initialize_table" for t in ctx.eff.callees(it, n))]
    sl = ctx.slicer(it)
    ok = bool(im) and any(isinstance(c, ast.Call) and (dotted(c.func) or "") == "TableMetadata" for c in sl.origins(im[0].ast.args[0], im[0].id)["calls"])  # type: ignore[union-attr]
    ctx.ob("C18.R4", it, "that metadata object is what gets initialised", im[0] if im else None, ok, "")


def r5(ctx: Ctx) -> None:
    ctx.rule("C18.R5", "a schema-less append with no persisted schema raises; only non-empty persisted schemas are used", 2)
    ad = ctx.fn("transaction.Transaction.append_data")
    g = ctx.cfg(ad)
    dom = ctx.dom(ad, NORMAL)
    rs = [n for n in g.calls() if any(t.name == "_resolve_table_schema" for t in ctx.eff.callees(ad, n))]
    writes = ctx.calls(ad, name="write_data_file")
    # variables holding the resolver's result, the defining statements, and the None-guards on them
    rdefs = [n for n in g.nodes if n.kind == "stmt" and isinstance(n.ast, ast.Assign) and rs
             and any(n.ast.value is r.ast for r in rs) and len(n.ast.targets) == 1 and isinstance(n.ast.targets[0], ast.Name)]
    rvars = {n.ast.targets[0].id for n in rdefs}  # type: ignore[union-attr]
    guards = []
    for b in g.nodes:
        if b.kind != "branch" or b.ast is None:
            continue
        null_lab = None
        if isinstance(b.ast, ast.Compare) and len(b.ast.ops) == 1 and isinstance(b.ast.left, ast.Name) and b.ast.left.id in rvars \
                and isinstance(b.ast.comparators[0], ast.Constant) and b.ast.comparators[0].value is None:
            null_lab = "true" if isinstance(b.ast.ops[0], ast.Is) else ("false" if isinstance(b.ast.ops[0], ast.IsNot) else None)
        elif isinstance(b.ast, ast.Name) and b.ast.id in rvars:
            null_lab = "false"
        if null_lab is None:
            continue
        t = edge_target(g, b, null_lab)
        if t is None:
            continue
        reach = reachable_from(g, t, NORMAL)
        if any(g.nodes[x].kind == "raise" for x in reach) and not any(w.id in reach for w in writes):
            guards.append(b)
    ok = bool(rdefs) and bool(writes) and bool(guards) and all(
        find_path(g, d.id, [w.id], avoid=[b.id for b in guards], labels=NORMAL) is None for d in rdefs for w in writes)
    ctx.ob("C18.R5", ad, "no schema anywhere -> ValueError before anything is written", rs[0] if rs else None, ok,
           "appending without a schema would silently discard all record fields")
    rf = ctx.fn("transaction.Transaction._resolve_table_schema")
    rg = ctx.cfg(rf)
    rets = [n for n in rg.nodes if n.kind == "return" and n.ast.value is not None and not isinstance(n.ast.value, ast.Constant)]  # type: ignore[union-attr]
    rdom = ctx.dom(rf, NORMAL)
    rsl_ = ctx.slicer(rf)

    def _selected_by_fields(r: Node) -> bool:
        if any(b.kind == "branch" and "fields" in b.text and b.id in rdom[r.id] for b in rg.nodes):
            return True
        # ... or the value is picked by a comprehension / generator whose filter tests `.fields`
        org = rsl_.origins(r.ast.value, r.id)  # type: ignore[union-attr]
        for e in list(org["exprs"]) + [r.ast.value]:  # type: ignore[union-attr]
            for x in ast.walk(e):
                if isinstance(x, (ast.GeneratorExp, ast.ListComp)) and any(
                        isinstance(y, ast.Attribute) and y.attr == "fields" for c in x.generators for i in c.ifs for y in ast.walk(i)):
                    return True
        return False

    ok = bool(rets) and all(_selected_by_fields(r) for r in rets)
    ctx.ob("C18.R5", rf, "only schemas with fields are resolved", rets[0] if rets else None, ok,
           "the default empty schema of a schema-less table is never used for writing")
