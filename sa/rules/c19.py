"""C19 - locks exclude, time out, and never report a lock that is not held."""
from __future__ import annotations

import ast
from typing import List, Optional, Set

from ..cfg import NORMAL, Node, handler_classes
from ..core import Ctx
from ..flow import ALL, find_path, names_in
from ..model import AnalysisError, FunctionInfo, dotted, norm_text
from .common import call_keyword_states, call_keywords, effective_compare, eval3, facts_at, resolve_value, owner_tops, edge_target, handler_exits, handler_nodes, in_handler, kwarg, reachable_from

EXPLANATION = (
    "Static analysis of file_lock.py / lock_provider.py: (R1) every exclusive flock / msvcrt.locking attempt carries the "
    "non-blocking flag; (R2) cycle query: every cycle of the two acquire loops passes a time comparison whose true edge raises "
    "TimeoutError, and every sleep/wait/join in the lock modules is bounded; (R3) every put_object of the CAS lock provider "
    "carries IfNoneMatch or IfMatch; the takeover's IfMatch value and the age it is guarded by come from the same head_object "
    "response, and the takeover PUT is dominated by the lease-expired edge; (R4) is_held returns True only on the read-back-equal "
    "edge, mismatch clears the flag, errors return False; acquire returns True only after _try_acquire() returned True; the "
    "local flag is set only after flock succeeded; (R5) flock mode never unlinks the lock file; the S3 release deletes only "
    "under content == lock_id. The polling provider is documented best-effort and is not constrained."
    " Also: taking over IS acquiring (the takeover's result is _try_acquire's result); the cached ETag only ever holds the ETag of our own PUT; is_held returns decided constants; LocalLockProvider never removes the lock file."
    ' (R6) the existence-lock fallback is reached only when no kernel lock primitive is available; R2 covers counted `for` acquire loops too (a count of attempts is not a deadline).'
    ' (R7) an acquisition attempt reports success only after its own lock primitive completed normally (exception-aware set domination), and the state flag release()/is_held() rely on is set then.'
    " (R8) the S3 lock owner token is a uuid4 drawn in the provider's own __init__; (R9) the lock directory is named only as the argument of create_lock; (R10) every provider a backend's create_lock builds is built on the canonical resolution of the path."
    ' (R11) the O_EXCL fallback lock is broken only under `age > k * timeout`.'
    ' (R12) lock ages use UTC-aware clocks (C20.R11); (R13) release() lets go on every path past its guard, exception edges included; (R14) the polling provider deletes an expired lock only when BOTH LastModified and ETag of the second HEAD equal the first (separately, or as one tuple / NamedTuple built the same way); R3/R4/R5 look through helpers returning the PUT response and through boolean record fields carrying `content == lock_id`.'
    " R10 holds on EVERY way the provider's path argument gets its value."
    " R2: one clock per deadline test, monotonic for the local lock; R5: fallback mode is claimed only after an O_EXCL create, release() clears the held flag; R10: the provider path IS the resolver's result; R11: age = time.time() - mtime."
    " (R15) timeouts / leases are never defaulted or tested by truthiness (timeout 0 stays 0); (R16) lock ages use total_seconds(), never timedelta.seconds alone; R3 checks the lease test's units (timedelta(seconds=lease) vs timedelta(lease)); R5 requires EVERY path to the release DELETE to pass the read-back-equal edge; R8 accepts a dataclass field(default_factory=uuid4...) owner token."
    " R3 reads a shared lease-age helper that answers `age if age > lease else None` (None-correlation with the caller's test); R5 decides 'unlink only in O_EXCL fallback mode' by scenario over the two module flags when the mode is derived instead of tracked."
    ' R5 accepts a second sound protocol for the flock-mode lock file: it may be unlinked on release if no unlock / close can precede the unlink AND every acquisition re-validates, after winning the flock, that the inode it locked is still the one the path names (fstat vs stat, st_ino).'
)
NOT_DECIDED = "kernel / S3 semantics, interleavings, numeric timeout bounds"


def check(ctx: Ctx) -> None:
    r1(ctx)
    r2(ctx)
    r3(ctx, "C19.R3")
    r4(ctx)
    r5(ctx)
    kernel_lock_preferred(ctx, "C19.R6")
    success_means_locked(ctx)
    owner_token_unique(ctx)
    lock_dir_private(ctx)
    lock_identity_canonical(ctx)
    fallback_break_only_when_stale(ctx)
    # "a lock is taken over only after its lease lapsed": the lease age is LastModified against an aware UTC now
    from .c20 import r11_utc_ages
    r11_utc_ages(ctx, "C19.R12")
    release_always_lets_go(ctx)
    polling_break_double_check(ctx)
    # "fails with a timeout error within its configured timeout": a configured 0 ("try once") is a configuration, not an absence
    from .common import numbers_not_truth_tested
    numbers_not_truth_tested(ctx, "C19.R15", ("file_lock", "lock_provider", "storage_backend"), "timeouts, leases, ages")
    durations_use_total_seconds(ctx, "C19.R16", ("file_lock", "lock_provider", "storage_backend"))


def lock_dir_private(ctx: Ctx, rid: str = "C19.R9") -> None:
    ctx.rule(rid, "the lock directory belongs to the lock: its name appears in the package only as the argument of create_lock - "
             "no sweep, listing, cleanup or maintenance code addresses it (unlinking a flock()ed file lets the next acquirer lock "
             "a fresh inode while the old holder still holds the old one: two holders)", 1)
    mm_init = ctx.fn("metadata_manager.MetadataManager.__init__")
    cl = [n for n in ctx.cfg(mm_init).calls() if isinstance(n.ast, ast.Call) and isinstance(n.ast.func, ast.Attribute) and n.ast.func.attr == "create_lock"]
    lock_path = ctx.prog.const_str(cl[0].ast.args[0], mm_init.module, mm_init) if cl and cl[0].ast.args else None  # type: ignore[union-attr]
    if not lock_path or "/" not in lock_path:
        raise AnalysisError("the commit lock's path is no longer a constant '<dir>/<name>' handed to create_lock")
    lock_dir = lock_path.strip("/").split("/")[0]
    n_ok = 0
    for m in sorted(ctx.prog.modules.values(), key=lambda x: x.name):
        allowed = set()
        for x in ast.walk(m.tree):
            if isinstance(x, ast.Call) and isinstance(x.func, ast.Attribute) and x.func.attr == "create_lock":
                allowed |= {id(c) for a in x.args for c in ast.walk(a)}
        for x in ast.walk(m.tree):
            if isinstance(x, ast.Constant) and isinstance(x.value, str) and x.value.strip("/").split("/")[0] == lock_dir \
                    and " " not in x.value.strip():
                ok = id(x) in allowed
                if not ok:
                    # a named constant (module / class level `NAME = ".locks/..."`) whose every use is a create_lock argument
                    nm = next((st.targets[0].id for st in ast.walk(m.tree) if isinstance(st, ast.Assign) and st.value is x
                               and len(st.targets) == 1 and isinstance(st.targets[0], ast.Name)), None)
                    if nm is not None:
                        uses, in_lock = 0, 0
                        for m2 in ctx.prog.modules.values():
                            al2 = set()
                            for y in ast.walk(m2.tree):
                                if isinstance(y, ast.Call) and isinstance(y.func, ast.Attribute) and y.func.attr == "create_lock":
                                    al2 |= {id(c) for a in list(y.args) + [k.value for k in y.keywords] for c in ast.walk(a)}
                            for y in ast.walk(m2.tree):
                                if (isinstance(y, ast.Name) and y.id == nm and isinstance(y.ctx, ast.Load)) or \
                                        (isinstance(y, ast.Attribute) and y.attr == nm and isinstance(y.ctx, ast.Load)):
                                    uses += 1
                                    in_lock += id(y) in al2
                        ok = uses > 0 and uses == in_lock
                n_ok += ok
                ctx.ob(rid, None, "lock directory named only where the lock is created", None, ok,
                       f"`{x.value}`" + ("" if ok else ": code outside create_lock addresses the lock directory - whatever it lists, "
                                         "ages or deletes there is the live commit lock of some writer"),
                       text=f"{m.short}:{x.value}", file=m.relpath, line=x.lineno)
    if n_ok == 0 and not any(o.rule == rid and not o.ok for o in ctx.obs):
        raise AnalysisError("create_lock argument not found as a constant")


def lock_identity_canonical(ctx: Ctx, rid: str = "C19.R10") -> None:
    ctx.rule(rid, "one table, one lock: every lock provider a backend's create_lock returns is built on the backend's canonical "
             "resolution of the given path (_resolve_path: realpath-based / _get_s3_key) - two spellings of one table (symlink, "
             "relative path) must contend for the same lock file / object", 2)
    for q, resolver in (("storage_backend.LocalStorageBackend.create_lock", "_resolve_path"),
                        ("storage_backend.S3StorageBackend.create_lock", "_get_s3_key")):
        f = ctx.fn(q)
        g = ctx.cfg(f)
        sl = ctx.slicer(f)
        pname = next((p.name for p in f.params if p.name not in ("self", "timeout")), "path")
        ctors = [n for n in g.calls() if n.id in g.reachable() and n.callee is not None and n.callee.kind == "ctor" and n.callee.cls is not None
                 and n.callee.cls.name.endswith("LockProvider")]
        if not ctors:
            raise AnalysisError(f"no lock provider constructed in {q}")
        for c in ctors:
            args = list(c.ast.args) + [k.value for k in c.ast.keywords]  # type: ignore[union-attr]
            hit = False
            for a in args:
                # on EVERY way the argument can get its value (locals, helper returns analysed in place)
                srcs = resolve_value(ctx, f, a, c.id)
                per_src = []
                for src, sat in srcs:
                    # the argument IS the resolver's result (or a path join that starts with it) - not a name derived from it
                    # through hash() / relpath / another directory (a salted hash differs per process; a second directory
                    # depends on TMPDIR: contenders then lock different files)
                    def is_resolved(x: Optional[ast.AST], at_: int, depth: int = 0) -> bool:
                        if x is None or depth > 4:
                            return False
                        if isinstance(x, ast.Call) and isinstance(x.func, ast.Attribute) and x.func.attr == resolver and x.args:
                            return pname in names_in(x.args[0]) or pname in sl.origins(x.args[0], at_)["names"]
                        if isinstance(x, ast.Call) and (dotted(x.func) or "") in ("os.path.join", "posixpath.join") and x.args:
                            return is_resolved(x.args[0], at_, depth + 1)
                        if isinstance(x, ast.Name):
                            inner = resolve_value(ctx, f, x, at_)
                            return bool(inner) and all(y is not x and is_resolved(y, a_, depth + 1) for y, a_ in inner)
                        return False
                    per_src.append(is_resolved(src, sat))
                if per_src and all(per_src):
                    hit = True
            ctx.ob(rid, f, f"lock provider built on {resolver}({pname})", c, hit,
                   "the lock's identity is the canonical location" if hit else
                   f"the lock's location does not come from {resolver}({pname}): writers reaching the table through different path "
                   "spellings (or configurations) lock different files and commit concurrently")


def fallback_break_only_when_stale(ctx: Ctx, rid: str = "C19.R11") -> None:
    ctx.rule(rid, "the O_EXCL fallback lock is broken only when it looks abandoned: every unlink of the lock file in the acquisition "
             "path is reached only through the true edge of an age comparison `age > <multiple of the timeout>` whose age is the "
             "clock minus the lock file's mtime (an unconditional / inverted break removes a live holder's lock)", 1)
    f = ctx.fn("file_lock.FileLock._try_acquire_excl_fallback")
    g = ctx.cfg(f)
    sl = ctx.slicer(f)
    unl = [n for n in g.calls() if n.id in g.reachable() and n.callee is not None and n.callee.kind == "prim"
           and n.callee.name in ("os.unlink", "os.remove")]
    for u in unl:
        ok = False
        for pol, e, at in facts_at(ctx, f, u):
            if pol != "true" or not isinstance(e, ast.Compare) or len(e.ops) != 1 or not isinstance(e.ops[0], (ast.Gt, ast.GtE)):
                continue
            lo, ro = sl.origins(e.left, at), sl.origins(e.comparators[0], at)
            aged = any(isinstance(c, ast.Call) and (dotted(c.func) or "").endswith("getmtime") for c in lo["calls"]) and \
                any(isinstance(c, ast.Call) and (dotted(c.func) or "") == "time.time" for c in lo["calls"]) and \
                not any(isinstance(c, ast.Call) and (dotted(c.func) or "") in ("time.monotonic", "time.perf_counter", "time.process_time") for c in lo["calls"])
            bound = any(nm.endswith("timeout") for nm in ro["names"])
            if aged and bound:
                ok = True
        ctx.ob(rid, f, "stale-lock break is guarded by `age > k * timeout`", u, ok,
               "the lock file is unlinked only when its mtime is older than a multiple of the timeout" if ok else
               "the lock file of a holder that may be alive is removed: the next O_EXCL create succeeds - two holders")
    ctx.ob(rid, f, "fallback break sites enumerated", None, True, f"{len(unl)} unlink site(s)", nontrivial=False)


def release_always_lets_go(ctx: Ctx, rid: str = "C19.R13") -> None:
    ctx.rule(rid, "release() lets go on every path: once past the `not is_locked` guard, every way out of S3LockProviderBase.release "
             "(normal completion, the 404 branch, the error branches) has stopped the heartbeat and cleared is_locked - a failed "
             "delete must leave a lock that EXPIRES, not one that the daemon heartbeat keeps renewing for the life of the process", 2)
    base = ctx.prog.cls("lock_provider.S3LockProviderBase")
    from .c20 import family
    for ci in family(ctx, base):
        f = ci.methods.get("release")
        if f is None:
            if ci is base:
                raise AnalysisError("S3LockProviderBase.release vanished")
            continue
        g = ctx.cfg(f)
        guard = [b for b in g.nodes if b.kind == "branch" and b.ast is not None and "is_locked" in norm_text(b.ast)]
        start = g.entry
        if guard:
            # the edge on which the lock IS held
            v = eval3(guard[0].ast, lambda e: True if (isinstance(e, ast.Attribute) and e.attr == "is_locked") else None)
            t = edge_target(g, guard[0], "true" if v else "false") if v is not None else None
            start = t if t is not None else g.entry
        exits = [g.exit] + [n.id for n in g.nodes if n.kind == "return" and n.id in reachable_from(g, start, ALL)]
        hb = [n.id for n in g.calls() if any(t_.name == "_stop_heartbeat_thread" for t_ in ctx.eff.callees(f, n))
              or (isinstance(n.ast, ast.Call) and isinstance(n.ast.func, ast.Attribute) and n.ast.func.attr == "_stop_heartbeat_thread")]
        clr = [n.id for n in g.nodes if n.kind == "stmt" and isinstance(n.ast, ast.Assign) and any(
            isinstance(t_, ast.Attribute) and t_.attr == "is_locked" for t_ in n.ast.targets)
            and isinstance(n.ast.value, ast.Constant) and n.ast.value.value is False]
        w1 = (None if start in hb else find_path(g, start, exits, avoid=hb, labels=ALL)) if hb else [start]
        w2 = (None if start in clr else find_path(g, start, exits, avoid=clr, labels=ALL)) if clr else [start]
        ctx.ob(rid, f, "every exit has stopped the heartbeat", None, bool(hb) and w1 is None,
               "the renewing daemon thread never outlives release()", witness=ctx.path_witness(f, w1) if hb else None, text=ci.name + ":heartbeat")
        ctx.ob(rid, f, "every exit has cleared is_locked", None, bool(clr) and w2 is None,
               "after release() the provider does not claim the lock", witness=ctx.path_witness(f, w2) if clr else None, text=ci.name + ":flag")


def _record_shape(ctx: Ctx, f: FunctionInfo, src: ast.AST) -> Optional[Tuple[str, ...]]:
    """('LastModified', 'ETag') for `(resp['LastModified'], resp.get('ETag'))` or `Stamp(resp['LastModified'], resp.get('ETag'))`
    where Stamp is a NamedTuple / dataclass of the package (field-wise equality); None for anything else."""
    elts: Optional[List[ast.AST]] = None
    if isinstance(src, ast.Tuple):
        elts = list(src.elts)
    elif isinstance(src, ast.Call) and not any(k.arg is None for k in src.keywords):
        dn = (dotted(src.func) or "").split(".")[-1]
        for ci in ctx.prog.classes.values():
            if ci.name != dn:
                continue
            bases = {(dotted(b) or "").split(".")[-1] for b in getattr(ci.node, "bases", [])}
            decos = {(dotted(d.func if isinstance(d, ast.Call) else d) or "").split(".")[-1] for d in getattr(ci.node, "decorator_list", [])}
            eq_defined = any(m_ in ci.methods for m_ in ("__eq__", "__ne__"))
            if ("NamedTuple" in bases or "dataclass" in decos) and not eq_defined:
                # keyword arguments are compared by name: order them
                elts = list(src.args) + [k.value for k in sorted(src.keywords, key=lambda k: k.arg or "")]
    if elts is None:
        return None
    out = []
    for x in elts:
        ks = {c.value for c in ast.walk(x) if isinstance(c, ast.Constant) and c.value in ("LastModified", "ETag")}
        if len(ks) != 1:
            return None
        out.append(next(iter(ks)))
    return tuple(out)


def _field_sources(ctx: Ctx, f: FunctionInfo, side: ast.AST, at: int):  # type: ignore[no-untyped-def]
    """resolve_value, looking through `record.field` when every source of `record` is a NamedTuple / dataclass construction
    of the package: the argument bound to that field."""
    if isinstance(side, ast.Attribute) and isinstance(side.value, ast.Name):
        out = []
        for src, sat in resolve_value(ctx, f, side.value, at):
            arg = None
            if isinstance(src, ast.Call) and not any(k.arg is None for k in src.keywords):
                dn = (dotted(src.func) or "").split(".")[-1]
                for ci in ctx.prog.classes.values():
                    if ci.name != dn:
                        continue
                    fields = [st.target.id for st in getattr(ci.node, "body", []) if isinstance(st, ast.AnnAssign) and isinstance(st.target, ast.Name)]
                    if side.attr in fields:
                        i = fields.index(side.attr)
                        arg = src.args[i] if i < len(src.args) else next((k.value for k in src.keywords if k.arg == side.attr), None)
            if arg is None:
                return resolve_value(ctx, f, side, at)
            out.extend(resolve_value(ctx, f, arg, sat))
        if out:
            return out
    return resolve_value(ctx, f, side, at)


def polling_break_double_check(ctx: Ctx, rid: str = "C19.R14") -> None:
    ctx.rule(rid, "the polling provider breaks a lock only if it did not change while the breaker waited: the delete of the lock "
             "object is reached only when BOTH the LastModified and the ETag of the second HEAD equal the first (a renewal rewrites "
             "the same body: same ETag, new LastModified)", 1)
    f = ctx.fn("lock_provider.S3PollingLockProvider._check_and_break_expired_lock")
    g = ctx.cfg(f)
    sl = ctx.slicer(f)
    dels = [n for n in g.calls() if n.id in g.reachable() and n.callee is not None and n.callee.kind == "prim" and n.callee.name == "boto.delete_object"]
    if not dels:
        raise AnalysisError("the polling provider no longer deletes an expired lock")
    for d in dels:
        same = set()
        for pol, e, at in facts_at(ctx, f, d):
            if not (isinstance(e, ast.Compare) and len(e.ops) == 1):
                continue
            eq = (isinstance(e.ops[0], ast.Eq) and pol == "true") or (isinstance(e.ops[0], ast.NotEq) and pol == "false")
            if not eq:
                continue
            keys = set()
            shapes = set()
            for side in (e.left, e.comparators[0]):
                # the response field each side was read from (through locals, tuple unpacking, in-place helper returns)
                ks = set()
                for src, sat in _field_sources(ctx, f, side, at):
                    if src is None:
                        continue
                    shapes.add(_record_shape(ctx, f, src))
                    ks |= {c.value for c in ast.walk(src) if isinstance(c, ast.Constant) and c.value in ("LastModified", "ETag")}
                    if not ks:
                        ks |= {c for c in sl.origins(src, sat)["consts"] if c in ("LastModified", "ETag")}
                keys.add(frozenset(ks))
            if keys == {frozenset({"LastModified"})}:
                same.add("LastModified")
            if keys == {frozenset({"ETag"})}:
                same.add("ETag")
            if keys == {frozenset({"LastModified", "ETag"})} and len(shapes) == 1 and None not in shapes:
                # both sides are the same record of the two fields (a tuple / NamedTuple / dataclass built the same way):
                # equality of the records is equality of every field
                same |= {"LastModified", "ETag"}
        ok = same == {"LastModified", "ETag"}
        ctx.ob(rid, f, "lock broken only if LastModified AND ETag are unchanged", d, ok,
               f"unchanged-checks dominating the delete: {sorted(same)}" + ("" if ok else " - a renewal during the breaker's pause goes "
               "unnoticed: a live holder's lock is deleted and two writers commit on one base"))


def owner_token_unique(ctx: Ctx, rid: str = "C19.R8") -> None:
    ctx.rule(rid, "the S3 lock's owner token is unique per provider INSTANCE: every store to `.lock_id` is made in a lock "
             "provider's own __init__ and its value is a uuid4() drawn there (is_held / release / renew compare the lock object's "
             "content or ETag with it: two handles sharing a token each believe they hold the other's lock)", 1)
    n = 0
    for f in sorted(ctx.prog.functions.values(), key=lambda x: x.qname):
        if isinstance(f.node, ast.Lambda):
            continue
        g = ctx.cfg(f)
        for st in g.nodes:
            if st.kind != "stmt" or not isinstance(st.ast, (ast.Assign, ast.AugAssign)) or st.id not in g.reachable():
                continue
            tgs = st.ast.targets if isinstance(st.ast, ast.Assign) else [st.ast.target]
            for t in tgs:
                if not (isinstance(t, ast.Attribute) and t.attr == "lock_id"):
                    continue
                n += 1
                in_init = f.name == "__init__" and f.cls is not None and isinstance(t.value, ast.Name) and t.value.id == "self"
                org = ctx.slicer(f).origins(st.ast.value, st.id)
                own_uuid = any(isinstance(c, ast.Call) and (dotted(c.func) or "").endswith("uuid4") for c in org["calls"])
                if not own_uuid and isinstance(st.ast.value, ast.Attribute):
                    # `self.lock_id = self.config.lock_id` with `self.config = S3LockConfig(...)` built in this constructor and the
                    # record's field declared `field(default_factory=lambda: str(uuid.uuid4()))`: drawn per record = per instance
                    # (a plain default `= str(uuid.uuid4())` is evaluated ONCE, at import)
                    fld = st.ast.value.attr
                    ctors = [c for c in org["calls"] if isinstance(c, ast.Call) and not any(k.arg == fld for k in c.keywords)]
                    base_txt = norm_text(st.ast.value.value)
                    ctors += [x.value for x in ast.walk(f.node) if isinstance(x, ast.Assign) and len(x.targets) == 1
                              and norm_text(x.targets[0]) == base_txt and isinstance(x.value, ast.Call)
                              and not any(k.arg == fld for k in x.value.keywords)]
                    for c in ctors:
                        ci = next((k_ for k_ in ctx.prog.classes.values() if k_.name == (dotted(c.func) or "").split(".")[-1] and k_.is_dataclass), None)
                        if ci is None:
                            continue
                        decl = next((x for x in ci.node.body if isinstance(x, ast.AnnAssign) and isinstance(x.target, ast.Name) and x.target.id == fld), None)
                        v_ = decl.value if decl is not None else None
                        if isinstance(v_, ast.Call) and (dotted(v_.func) or "").split(".")[-1] == "field":
                            fac = next((k.value for k in v_.keywords if k.arg == "default_factory"), None)
                            if isinstance(fac, ast.Lambda) and any(isinstance(y, ast.Call) and (dotted(y.func) or "").endswith("uuid4") for y in ast.walk(fac.body)):
                                own_uuid = True
                            elif fac is not None and (dotted(fac) or "").endswith("uuid4"):
                                own_uuid = True
                ctx.ob(rid, f, "lock owner token is a per-instance uuid4", st, in_init and own_uuid,
                       "drawn by uuid4() in the provider's constructor" if in_init and own_uuid else
                       ("the token is not a uuid4() drawn in the provider's own constructor (host / pid / a process-wide memo): "
                        "handles of one process share it - after a takeover the superseded handle's is_held() stays True, its commit "
                        "passes the fence and its release() deletes the new holder's lock"))
    if n == 0:
        raise AnalysisError("no store to .lock_id found (owner token vanished)")


def success_means_locked(ctx: Ctx, rid: str = "C19.R7") -> None:
    ctx.rule(rid, "an acquisition attempt reports success only after its own lock primitive completed normally: every `return "
             "True` of the attempt functions is dominated (normal edges) by the flock / O_EXCL open / conditional PUT, and by the "
             "state assignment that release() and is_held() rely on", 6)
    sites = (
        ("file_lock.FileLock._try_acquire_once", ("fcntl.flock", "msvcrt.locking"), "self._locked"),
        ("file_lock.FileLock._try_acquire_excl_fallback", ("os.open",), "self._locked"),
        ("lock_provider.S3LockProvider._try_acquire", ("boto.put_object",), None),
        ("lock_provider.S3LockProvider._try_takeover_expired", ("boto.put_object",), None),
        ("lock_provider.S3PollingLockProvider._try_acquire", ("boto.put_object",), None),
    )
    for q, prims, flag in sites:
        f = ctx.fn(q)
        g = ctx.cfg(f)
        dom = ctx.dom(f, NORMAL)
        pcalls = [n for p in prims for n in ctx.calls(f, prim=p)]
        if q.endswith("_excl_fallback"):
            pcalls = [n for n in pcalls if isinstance(n.ast, ast.Call) and len(n.ast.args) > 1 and "O_EXCL" in norm_text(n.ast.args[1])]
        if not pcalls:
            raise AnalysisError(f"lock primitive vanished from {q}")
        trues = [n for n in g.nodes if n.kind == "return" and n.id in g.reachable()
                 and isinstance(n.ast.value, ast.Constant) and n.ast.value.value is True]  # type: ignore[union-attr]
        ctx.ob(rid, f, "the attempt can succeed", trues[0] if trues else None, bool(trues), "", nontrivial=False, text="has-true")
        def after_primitive(nid: int) -> bool:
            # every path from the entry to the node (exception edges included) LEAVES one of the (alternative) primitives by a
            # normal edge: with those edges removed the node must be unreachable
            pset = {p.id for p in pcalls}
            return find_path(g, g.entry, [nid], labels=ALL, edge_ok=lambda s_, d_, l_: not (s_ in pset and l_ in NORMAL)) is None

        for r in trues:
            ok = after_primitive(r.id)
            ctx.ob(rid, f, "`return True` only after the lock primitive succeeded", r, ok,
                   f"primitives {[p.text[:40] for p in pcalls]}: a success reported from an error path (handler) hands out a lock "
                   "that is not held")
            if flag:
                sets = [n for n in g.nodes if n.kind == "stmt" and isinstance(n.ast, ast.Assign) and norm_text(n.ast.targets[0]) == flag
                        and isinstance(n.ast.value, ast.Constant) and n.ast.value.value is True]
                ctx.ob(rid, f, f"success records {flag} = True", r, any(s_.id in dom[r.id] for s_ in sets),
                       "release() and is_held() act on this flag: a held lock that is not recorded is never released")
        if flag:
            early = [n for n in g.nodes if n.kind == "stmt" and isinstance(n.ast, ast.Assign) and norm_text(n.ast.targets[0]) == flag
                     and isinstance(n.ast.value, ast.Constant) and n.ast.value.value is True and not after_primitive(n.id)]
            ctx.ob(rid, f, f"{flag} is set only after the primitive succeeded", early[0] if early else None, not early, "", nontrivial=False,
                   text="flag-after-primitive")


def kernel_lock_preferred(ctx: Ctx, rid: str) -> None:
    """Shared with C03: a writer that dies holding a kernel lock releases it; the O_EXCL existence lock does not."""
    ctx.rule(rid, "the O_CREAT|O_EXCL existence lock (not released when its holder dies) is used only where no kernel lock "
             "primitive exists: the fallback is reached only when FCNTL_AVAILABLE and MSVCRT_AVAILABLE are both false", 1)
    f = ctx.fn("file_lock.FileLock._try_acquire_once")
    g = ctx.cfg(f)
    fb = [n for n in g.calls() if any(t.name == "_try_acquire_excl_fallback" for t in ctx.eff.callees(f, n))]
    excl = [n for n in ctx.calls(f, prim="os.open") if isinstance(n.ast, ast.Call) and len(n.ast.args) > 1 and "O_EXCL" in norm_text(n.ast.args[1])]
    sites = fb + excl
    if not sites:
        ctx.ob(rid, f, "no existence-lock fallback", None, True, "only kernel locks are used", nontrivial=False)
    for n in sites:
        known_false = {e.id for pol, e, _at in facts_at(ctx, f, n) if pol == "false" and isinstance(e, ast.Name)}
        ok = {"FCNTL_AVAILABLE", "MSVCRT_AVAILABLE"} <= known_false
        ctx.ob(rid, f, "existence-lock fallback only without fcntl AND msvcrt", n, ok,
               f"flags known false on arrival: {sorted(known_false)}; with a kernel primitive available the lock of a dead "
               "writer is released by the OS, with the existence lock every commit times out until the stale-break threshold")


def lock_functions(ctx: Ctx) -> List[FunctionInfo]:
    return [f for f in ctx.prog.functions.values() if f.module.short in ("file_lock", "lock_provider")]


def r1(ctx: Ctx, rid: str = "C19.R1") -> None:
    ctx.rule(rid, "non-blocking attempts: every exclusive flock carries LOCK_NB; msvcrt.locking uses LK_NBLCK", 2)
    n_sites = 0
    for f in ctx.prog.functions.values():
        for n in ctx.calls(f, prim="fcntl.flock") + ctx.calls(f, prim="fcntl.lockf"):
            flags = norm_text(n.ast.args[1]) if isinstance(n.ast, ast.Call) and len(n.ast.args) > 1 else ""
            if "LOCK_UN" in flags and "LOCK_EX" not in flags:
                continue
            n_sites += 1
            ctx.ob(rid, f, "flock(LOCK_EX | LOCK_NB)", n, "LOCK_NB" in flags,
                   f"flags `{flags}`: a blocking flock would ignore the configured timeout (audit #31)", nontrivial=False)
        for n in ctx.calls(f, prim="msvcrt.locking"):
            mode = norm_text(n.ast.args[1]) if isinstance(n.ast, ast.Call) and len(n.ast.args) > 1 else ""
            if "LK_UNLCK" in mode:
                continue
            n_sites += 1
            ctx.ob(rid, f, "msvcrt.locking(LK_NBLCK)", n, "LK_NBLCK" in mode or "LK_NBRLCK" in mode,
                   f"mode `{mode}`", nontrivial=False)


def _deadline_branches(ctx: Ctx, f: FunctionInfo) -> List[Node]:
    """Branches comparing a clock-derived value with a limit derived from the configured timeout, whose 'clock is past the
    limit' edge raises TimeoutError.  Found by data flow (the elapsed time / the deadline may live in local variables)."""
    g = ctx.cfg(f)
    sl = ctx.slicer(f)
    out = []

    def clock(org) -> bool:
        return any(isinstance(c, ast.Call) and (dotted(c.func) or "") in ("time.time", "time.monotonic", "time.perf_counter") for c in org["calls"])

    def limit(org) -> bool:
        return any("timeout" in nm for nm in org["names"])

    for b in g.nodes:
        if b.kind != "branch" or b.id not in g.reachable():
            continue
        ec = effective_compare(ctx, f, b)
        if ec is None or len(ec[0].ops) != 1 or not isinstance(ec[0].ops[0], (ast.Gt, ast.GtE, ast.Lt, ast.LtE)):
            continue
        lo, ro = sl.origins(ec[0].left, ec[1]), sl.origins(ec[0].comparators[0], ec[1])
        gt = isinstance(ec[0].ops[0], (ast.Gt, ast.GtE))
        if clock(lo) and limit(ro) and not limit(lo):
            past_lab = "true" if gt else "false"
        elif clock(ro) and limit(lo) and not limit(ro):
            past_lab = "false" if gt else "true"
        else:
            continue
        tt = edge_target(g, b, past_lab)
        if tt is None:
            continue
        reach = reachable_from(g, tt, NORMAL, avoid=[n.id for n in g.nodes if n.kind == "loop_head"])
        rs = [g.nodes[x] for x in reach if g.nodes[x].kind == "raise"]
        if rs and all(r.raised == "TimeoutError" for r in rs):
            out.append(b)
    return out


def r2(ctx: Ctx) -> None:
    ctx.rule("C19.R2", "every acquire loop has a deadline: each cycle passes a time comparison whose true edge raises TimeoutError; "
             "sleeps / waits / joins in the lock modules are bounded", 4)
    for q in ("file_lock.FileLock.acquire", "lock_provider.S3LockProviderBase.acquire"):
        f = ctx.fn(q)
        g = ctx.cfg(f)
        # the loop(s) around the acquisition attempt - `while` or a counted `for` (a count of attempts is not a deadline)
        attempts = [n for n in g.calls() if any(t.name.startswith("_try_acquire") for t in ctx.eff.callees(f, n))]
        loop_asts = {id(fr.node) for a in attempts for fr in a.frames if fr.kind == "loop"}
        heads = [n for n in g.nodes if n.kind in ("loop_head", "loop") and n.ast is not None and id(n.ast) in loop_asts]
        if not heads:
            heads = [n for n in g.nodes if n.kind == "loop_head"]
        if not heads:
            raise AnalysisError(f"acquire loop vanished from {q}")
        dl = _deadline_branches(ctx, f)
        for h in heads:
            w = None
            for s in [d for d, l in g.succ[h.id] if l in NORMAL]:
                w = find_path(g, s, [h.id], avoid=[b.id for b in dl], labels=NORMAL)
                if w:
                    break
            ctx.ob("C19.R2", f, "no cycle of the acquire loop avoids the deadline test", h, bool(dl) and w is None,
                   "a blocked acquirer fails with TimeoutError instead of spinning forever", witness=ctx.path_witness(f, w))
        # the deadline is derived from the configured timeout
        ok = bool(dl)  # _deadline_branches only accepts limits derived from the configured timeout
        ctx.ob("C19.R2", f, "the deadline derives from self.timeout", dl[0] if dl else None, ok, "configured timeout is honoured")
        # one clock on both sides of the deadline test; the local lock's deadline runs on the monotonic clock (a wall-clock
        # step while a contender waits must neither expire it early nor keep it blocked past its timeout)
        sl_ = ctx.slicer(f)
        for b in dl:
            ec = effective_compare(ctx, f, b)
            clocks = {(dotted(c.func) or "") for side in (ec[0].left, ec[0].comparators[0]) for c in sl_.origins(side, ec[1])["calls"]
                      if isinstance(c, ast.Call) and (dotted(c.func) or "") in ("time.time", "time.monotonic", "time.perf_counter")}
            want = {"time.monotonic"} if q.startswith("file_lock") else None
            okc = len(clocks) == 1 and (want is None or clocks == want)
            ctx.ob("C19.R2", f, "the deadline test uses one clock" + (" (monotonic)" if want else ""), b, okc,
                   f"clock(s) feeding the comparison: {sorted(clocks)}" + ("" if okc else " - a wall-clock step (NTP, DST, manual) while a "
                   "contender waits moves the deadline: the acquirer does not fail within its configured timeout"))
    for f in lock_functions(ctx):
        for n in ctx.cfg(f).calls():
            c = n.callee
            if c is None or not isinstance(n.ast, ast.Call):
                continue
            nm = c.name if c.kind == "prim" else ""
            if nm == "time.sleep":
                ctx.ob("C19.R2", f, "bounded sleep", n, bool(n.ast.args), "time.sleep(<finite>)", nontrivial=False)
            elif nm in ("method.wait", "method.join") or nm.endswith((".wait", ".join")) and nm.startswith(("method.", "threading.")):
                bounded = bool(n.ast.args) or any(k.arg == "timeout" for k in n.ast.keywords)
                if nm.endswith(".join") and n.ast.args and isinstance(n.ast.args[0], (ast.List, ast.GeneratorExp, ast.ListComp)):
                    continue  # str.join
                ctx.ob("C19.R2", f, "bounded wait/join", n, bounded, "Event.wait / Thread.join carry a timeout", nontrivial=False)


def takeover_is_acquire(ctx: Ctx, rid: str) -> None:
    """Shared with C03 (a crash while holding the lock must not wedge the table)."""
    ta = ctx.fn("lock_provider.S3LockProvider._try_acquire")
    tag = ctx.cfg(ta)
    tcalls = [n for n in tag.calls() if any(t.name == "_try_takeover_expired" for t in ctx.eff.callees(ta, n))]
    returned = [n for n in tcalls if isinstance(n.stmt, ast.Return)]
    ctx.ob(rid, ta, "taking over an expired lock IS acquiring it (the takeover's result is _try_acquire's result)",
           tcalls[0] if tcalls else None, bool(returned),
           "if the takeover happens elsewhere and its result is dropped, acquire() can never succeed after a holder died: the table "
           "accepts no commit until manual cleanup")


def _response_source(ctx: Ctx, m: FunctionInfo, rhs: Optional[ast.AST], depth: int = 0) -> str:
    """Which request produced a response value: the leaf name of the call (`put_object`), looking through a package helper
    every result of which is that request's response (`def _put_lock_object(self, **precondition): return self.s3.put_object(...)`)."""
    if not isinstance(rhs, ast.Call):
        return "?"
    leaf = (dotted(rhs.func) or "").split(".")[-1]
    c = ctx.prog.resolve_call(rhs, m)
    if c is not None and c.kind == "func" and len(c.funcs) == 1 and depth < 3 and not isinstance(c.funcs[0].node, ast.Lambda):
        from .common import effective_returns
        t = c.funcs[0]
        rets = effective_returns(ctx, t)
        inner = {_response_source(ctx, t, v, depth + 1) for _n, v in rets}
        if len(inner) == 1:
            return next(iter(inner))
        return leaf
    return leaf


def r3(ctx: Ctx, rid: str) -> None:
    ctx.rule(rid, "S3 lock mutations are compare-and-swap: every put_object of S3LockProvider is conditional; takeover is guarded "
             "by the lease age from the same head_object response as its IfMatch ETag", 4)
    cls = ctx.prog.cls("lock_provider.S3LockProvider")
    n_put = 0
    for m in cls.methods.values():
        if ctx.prog.is_transparent(m) and owner_tops(ctx, m):
            continue  # a helper introduced later: its PUT is judged at each place it is analysed in place
        for p in ctx.calls(m, prim="boto.put_object"):
            n_put += 1
            sts = call_keyword_states(ctx, m, p)
            kws = set().union(*sts) if sts else set()
            ctx.ob(rid, m, "conditional PUT", p, bool(sts) and all(st & {"IfNoneMatch", "IfMatch"} and "?" not in st for st in sts),
                   f"keywords {sorted(k for k in kws if k)}: create / takeover / renewal of the lock object are CAS (audit #30)",
                   nontrivial=False)
    if n_put < 3:
        raise AnalysisError(f"S3LockProvider has {n_put} put_object sites, expected create/takeover/renew")
    takeover_is_acquire(ctx, rid)
    tk = ctx.fn("lock_provider.S3LockProvider._try_takeover_expired")
    g = ctx.cfg(tk)
    sl = ctx.slicer(tk)
    for p in ctx.calls(tk, prim="boto.put_object"):
        ims = call_keywords(ctx, tk, p).get("IfMatch", [])
        im = ims[0] if ims else None
        eo = sl.origins(im, p.id)
        heads = [c for c in eo["calls"] if isinstance(c, ast.Call) and (dotted(c.func) or "").endswith("head_object")]
        def lease_kind(e: ast.AST) -> Optional[str]:
            """'seconds' for self.lease_seconds itself; 'timedelta' / 'timedelta-wrong-unit' for a property of the provider that
            returns timedelta(seconds=self.lease_seconds) / the lease under another unit (timedelta's first positional is DAYS)"""
            t = norm_text(e)
            if "lease_seconds" in t:
                return "seconds"
            called = False
            if isinstance(e, ast.Call) and not e.args and not e.keywords and isinstance(e.func, ast.Attribute):
                e, called = e.func, True  # a property the audited tree did not have is read as a parameterless method (model.py)
            if isinstance(e, ast.Attribute) and isinstance(e.value, ast.Name) and e.value.id == "self":
                for c in [cls] + [ctx.prog.classes[b] for b in cls.base_names if b in ctx.prog.classes]:
                    # an attribute set once in a constructor: `self.lease = timedelta(seconds=lease_seconds)`
                    sets = [x.value for m_ in c.methods.values() for x in ast.walk(m_.node) if isinstance(x, ast.Assign) and len(x.targets) == 1
                            and isinstance(x.targets[0], ast.Attribute) and x.targets[0].attr == e.attr
                            and isinstance(x.targets[0].value, ast.Name) and x.targets[0].value.id == "self"]
                    if len(sets) == 1 and isinstance(sets[0], ast.Call) and (dotted(sets[0].func) or "").split(".")[-1] == "timedelta" \
                            and "lease_seconds" in norm_text(sets[0]):
                        kws = {k.arg: norm_text(k.value) for k in sets[0].keywords}
                        good = not sets[0].args and set(kws) == {"seconds"} and "lease_seconds" in kws["seconds"] and kws["seconds"].count("*") == 0 \
                            and "/" not in kws["seconds"]
                        return "timedelta" if good else "timedelta-wrong-unit"
                    pm = c.methods.get(e.attr)
                    if pm is not None and (called or any((dotted(d) or "") == "property" for d in getattr(pm.node, "decorator_list", []))):
                        rets = [x.value for x in ast.walk(pm.node) if isinstance(x, ast.Return) and x.value is not None]
                        if len(rets) == 1 and isinstance(rets[0], ast.Call) and (dotted(rets[0].func) or "").split(".")[-1] == "timedelta" \
                                and "lease_seconds" in norm_text(rets[0]):
                            kws = {k.arg: norm_text(k.value) for k in rets[0].keywords}
                            good = not rets[0].args and set(kws) == {"seconds"} and "lease_seconds" in kws["seconds"] and kws["seconds"].count("*") == 0 \
                                and "/" not in kws["seconds"]
                            return "timedelta" if good else "timedelta-wrong-unit"
                        if len(rets) == 1 and "lease_seconds" in norm_text(rets[0]):
                            return "seconds" if norm_text(rets[0]) == "self.lease_seconds" else None
            return None

        age_b = [b for b in g.nodes if b.kind == "branch" and isinstance(b.ast, ast.Compare) and len(b.ast.ops) == 1
                 and any(lease_kind(x) for x in [b.ast.left] + list(b.ast.comparators))]
        ok_same = False
        ok_dom = False
        for b in age_b:
            ao = sl.origins(b.ast, b.id)
            aheads = [c for c in ao["calls"] if isinstance(c, ast.Call) and (dotted(c.func) or "").endswith("head_object")]
            if heads and aheads and {id(c) for c in heads} == {id(c) for c in aheads}:
                ok_same = True
            cmp_ = b.ast
            assert isinstance(cmp_, ast.Compare)
            lk = lease_kind(cmp_.comparators[0])
            # both sides of the age test are in one unit: seconds against seconds, timedelta against timedelta(seconds=lease)
            age_secs = any(isinstance(c, ast.Call) and isinstance(c.func, ast.Attribute) and c.func.attr == "total_seconds" for c in ao["calls"])
            unit_ok = (lk == "seconds" and age_secs) or (lk == "timedelta" and not age_secs)
            ctx.ob(rid, tk, "lease age and lease are compared in one unit", b, unit_ok,
                   f"`{b.text}`: age in {'seconds' if age_secs else 'timedelta'}, lease as {lk} - timedelta(<n>) counts DAYS, a number "
                   "against a timedelta raises: an abandoned lock is then never (or always) taken over")
            le = isinstance(cmp_.ops[0], (ast.LtE, ast.Lt)) and lk is not None
            gt = isinstance(cmp_.ops[0], (ast.Gt, ast.GtE)) and lk is not None
            expired_edge = "false" if le else ("true" if gt else None)
            fresh_edge = "true" if le else ("false" if gt else None)
            if expired_edge is None:
                continue
            e_t, f_t = edge_target(g, b, expired_edge), edge_target(g, b, fresh_edge)
            if e_t is not None and p.id in reachable_from(g, e_t, NORMAL) and (f_t is None or p.id not in reachable_from(g, f_t, NORMAL)):
                ok_dom = True
            elif e_t is not None and f_t is not None and p.id in reachable_from(g, e_t, NORMAL):
                # the comparison lives in a helper analysed in place that answers `age if age > lease else None`, and the caller
                # tests the answer against None: the `return None` exits cannot reach the PUT
                from .common import none_inline_return_edges, reachable_excluding
                dead_ = none_inline_return_edges(ctx, tk, p)
                if dead_ and p.id not in reachable_excluding(g, f_t, dead_):
                    ok_dom = True
        ctx.ob(rid, tk, "takeover ETag and lease age come from one head_object response", p, ok_same,
               "what was judged expired is exactly what the IfMatch replaces")
        ctx.ob(rid, tk, "takeover only after the lease lapsed", p, ok_dom,
               "the takeover PUT is only reachable from the age > lease_seconds edge")
    # self._etag may only ever hold the ETag of OUR OWN successful write (or None): adopting an ETag observed on the
    # object (head/get) would let a superseded holder write itself back over its successor
    for m in list(cls.methods.values()) + list(ctx.prog.cls("lock_provider.S3LockProviderBase").methods.values()):
        mg = ctx.cfg(m)
        msl = ctx.slicer(m)
        for n in mg.nodes:
            if n.kind == "stmt" and isinstance(n.ast, ast.Assign) and any(norm_text(t) == "self._etag" for t in n.ast.targets):
                v = n.ast.value
                if isinstance(v, ast.Constant) and v.value is None:
                    continue
                own = False
                fns = set()
                if isinstance(v, ast.Call) and isinstance(v.func, ast.Attribute) and v.func.attr == "get" and isinstance(v.func.value, ast.Name):
                    defs = ctx.rd(m).reaching(n.id, v.func.value.id)
                    srcs = []
                    for d in defs:
                        dn = mg.nodes[d]
                        rhs = dn.ast.value if isinstance(dn.ast, ast.Assign) else None
                        srcs.append(_response_source(ctx, m, rhs))
                    fns = set(srcs)
                    own = bool(srcs) and all(x == "put_object" for x in srcs)
                elif isinstance(v, ast.Subscript) and isinstance(v.value, ast.Name):
                    defs = ctx.rd(m).reaching(n.id, v.value.id)
                    srcs = [_response_source(ctx, m, mg.nodes[d].ast.value) if isinstance(mg.nodes[d].ast, ast.Assign) else "?" for d in defs]
                    fns = set(srcs)
                    own = bool(srcs) and all(x == "put_object" for x in srcs)
                else:
                    fns = {norm_text(v)[:40]}
                ctx.ob(rid, m, "self._etag only holds the ETag of our own successful PUT", n, own,
                       f"value is the ETag of the response of {sorted(fns)}: the cached ETag is the proof of OUR last write; an ETag read back from "
                       "the object may be a successor's")
    rn = ctx.fn("lock_provider.S3LockProvider._renew_once")
    for p in ctx.calls(rn, prim="boto.put_object"):
        ims = call_keywords(ctx, rn, p).get("IfMatch", [])
        o = ctx.slicer(rn).origins(ims[0], p.id) if ims else {"names": set()}
        ctx.ob(rid, rn, "renewal is keyed to our last-known ETag", p, "self._etag" in o["names"],
               "a renewal after theft fails instead of resurrecting the lock")


def r4(ctx: Ctx) -> None:
    ctx.rule("C19.R4", "ownership is read back: is_held/acquire report True only after a successful verification", 5)
    ih = ctx.fn("lock_provider.S3LockProviderBase.is_held")
    g = ctx.cfg(ih)
    sl = ctx.slicer(ih)
    rets_all = [n for n in g.nodes if n.kind == "return" and n.id in g.reachable()]
    ret_vars = {n.ast.value.id for n in rets_all if isinstance(n.ast.value, ast.Name)}  # type: ignore[union-attr]
    # points where the answer becomes True: `return True`, or `<returned flag> = True`
    trues = [n for n in rets_all if isinstance(n.ast.value, ast.Constant) and n.ast.value.value is True]  # type: ignore[union-attr]
    trues += [n for n in g.nodes if n.kind == "stmt" and isinstance(n.ast, ast.Assign) and len(n.ast.targets) == 1
              and isinstance(n.ast.targets[0], ast.Name) and n.ast.targets[0].id in ret_vars
              and isinstance(n.ast.value, ast.Constant) and n.ast.value.value is True]
    cmpb = [b for b in g.nodes if b.kind == "branch" and isinstance(b.ast, ast.Compare) and "lock_id" in b.text]
    for r in trues:
        ok = False
        for pol, e, at in facts_at(ctx, ih, r):
            if isinstance(e, ast.Compare) and len(e.ops) == 1 and "lock_id" in norm_text(e) and \
                    ((pol == "true" and isinstance(e.ops[0], ast.Eq)) or (pol == "false" and isinstance(e.ops[0], ast.NotEq))):
                org = sl.origins(e, at)
                if any(isinstance(c, ast.Call) and (dotted(c.func) or "").endswith("get_object") for c in org["calls"]):
                    ok = True
        ctx.ob("C19.R4", ih, "`return True` only on the read-back-equal edge", r, ok,
               "ownership is claimed only when the lock object's content equals our lock_id")
    for b in cmpb:
        eq = isinstance(b.ast.ops[0], ast.Eq)  # type: ignore[union-attr]
        bt = edge_target(g, b, "false" if eq else "true")
        clears = False
        if bt is not None:
            for x in reachable_from(g, bt, NORMAL, avoid=[n.id for n in g.nodes if n.kind == "loop"]):
                nd = g.nodes[x]
                if nd.kind == "stmt" and isinstance(nd.ast, ast.Assign) and norm_text(nd.ast.targets[0]) == "self.is_locked" \
                        and isinstance(nd.ast.value, ast.Constant) and nd.ast.value.value is False:
                    clears = True
        ctx.ob("C19.R4", ih, "content mismatch clears is_locked", b, clears, "a holder whose lock was taken over observes it")
    for hn in handler_nodes(ctx, ih):
        ex = handler_exits(ctx, ih, hn)
        rets = ex["return"]
        bad = [r for r in rets if not (isinstance(r.ast.value, ast.Constant) and r.ast.value.value is False)]  # type: ignore[union-attr]
        ctx.ob("C19.R4", ih, "errors never report ownership", hn, not bad and not ex["raise"],
               "transport errors / unknown ownership -> False (fail closed)", text=",".join(handler_classes(hn.ast)))  # type: ignore[arg-type]
    for r in [n for n in g.nodes if n.kind == "return" and n.id in g.reachable()]:
        v = r.ast.value  # type: ignore[union-attr]
        decided = isinstance(v, ast.Constant) and isinstance(v.value, bool)
        if isinstance(v, ast.Name):
            # a result variable every reaching definition of which is a boolean constant
            ds = ctx.rd(ih).reaching(r.id, v.id)
            decided = bool(ds) and all(isinstance(g.nodes[d].ast, ast.Assign) and isinstance(g.nodes[d].ast.value, ast.Constant)
                                       and isinstance(g.nodes[d].ast.value.value, bool) for d in ds)
        ctx.ob("C19.R4", ih, "is_held returns a decided constant", r, decided,
               f"`{r.text}`: falling back to the process-local flag when ownership could not be read reports a lock that may have been "
               "taken over (the fence must answer False when ownership is unknown)", nontrivial=False)
    guard = [b for b in g.nodes if b.kind == "branch" and norm_text(b.ast) == "self.is_locked"]
    ctx.ob("C19.R4", ih, "not locked -> False without I/O", guard[0] if guard else None, bool(guard), "local flag short-circuit", nontrivial=False)
    for q in ("lock_provider.S3LockProviderBase.acquire",):
        f = ctx.fn(q)
        fg = ctx.cfg(f)
        for r in [n for n in fg.nodes if n.kind == "return" and isinstance(n.ast.value, ast.Constant) and n.ast.value.value is True]:  # type: ignore[union-attr]
            brs = [b for b in fg.nodes if b.kind == "branch" and "_try_acquire" in b.text]
            ok = False
            for b in brs:
                t, fl = edge_target(fg, b, "true"), edge_target(fg, b, "false")
                heads = [n.id for n in fg.nodes if n.kind == "loop_head"]
                if t is not None and r.id in reachable_from(fg, t, NORMAL, avoid=heads) and (fl is None or r.id not in reachable_from(fg, fl, NORMAL, avoid=heads)):
                    ok = True
            ctx.ob("C19.R4", f, "acquire returns True only after _try_acquire() succeeded", r, ok, "no success while another holder is live")
    fa = ctx.fn("file_lock.FileLock.acquire")
    fg = ctx.cfg(fa)
    for r in [n for n in fg.nodes if n.kind == "return" and isinstance(n.ast.value, ast.Constant) and n.ast.value.value is True]:  # type: ignore[union-attr]
        ok = any(pol == "true" and isinstance(e, ast.Call) and (dotted(e.func) or "").endswith("_try_acquire_once")
                 for pol, e, _at in facts_at(ctx, fa, r))
        ctx.ob("C19.R4", fa, "FileLock.acquire returns True only after an attempt succeeded", r, ok, "")
    once = ctx.fn("file_lock.FileLock._try_acquire_once")
    og = ctx.cfg(once)
    dom = ctx.dom(once, NORMAL)
    sets = [n for n in og.nodes if n.kind == "stmt" and isinstance(n.ast, ast.Assign) and norm_text(n.ast.targets[0]) == "self._locked"
            and isinstance(n.ast.value, ast.Constant) and n.ast.value.value is True]
    locks = ctx.calls(once, prim="fcntl.flock") + ctx.calls(once, prim="msvcrt.locking")
    for s in sets:
        w = find_path(og, og.entry, [s.id], avoid=[l.id for l in locks], labels=NORMAL)
        ctx.ob("C19.R4", once, "_locked = True only after flock/locking returned", s, bool(locks) and w is None,
               "the local flag is authoritative for is_held()", witness=ctx.path_witness(once, w))
    hd = ctx.fn("file_lock.FileLock.is_held")
    rets = [n for n in ctx.cfg(hd).nodes if n.kind == "return"]
    ctx.ob("C19.R4", hd, "FileLock.is_held reports the flag", rets[0] if rets else None,
           bool(rets) and all(norm_text(r.ast.value) == "self._locked" for r in rets), "", nontrivial=False)  # type: ignore[union-attr]


def r5(ctx: Ctx, rid: str = "C19.R5") -> None:
    ctx.rule(rid, "release: flock mode never unlinks the lock file (and fallback mode is claimed only after an O_EXCL create); "
             "release() clears the held flag; the S3 release deletes only under content == lock_id", 2)
    rel = ctx.fn("file_lock.FileLock.release")
    g = ctx.cfg(rel)
    unl = [n for n in g.calls() if ctx.eff.prims_reached(rel, n) & {"os.unlink", "os.remove", "shutil.rmtree", "method.unlink"}]
    brs = [b for b in g.nodes if b.kind == "branch" and "_used_excl_fallback" in b.text]
    for u in unl:
        ok = False
        for b in brs:
            t, fl = edge_target(g, b, "true"), edge_target(g, b, "false")
            if t is not None and u.id in reachable_from(g, t, NORMAL) and (fl is None or u.id not in reachable_from(g, fl, NORMAL)):
                ok = True
        if not ok:
            # the mode derived from which kernel-lock primitive could be imported (module flags), not tracked per acquisition:
            # by scenario, on a platform that HAS a kernel lock (fcntl or msvcrt) the unlink is not reached
            from .common import scenario_walk
            flags_ = [nm for nm in ("FCNTL_AVAILABLE", "MSVCRT_AVAILABLE") if nm in rel.module.consts or any(
                isinstance(x, ast.Name) and x.id == nm for n_ in g.nodes if n_.ast is not None for x in ast.walk(n_.ast))]
            if len(flags_) == 2:
                verdicts = []
                for env_ in ({"FCNTL_AVAILABLE": True, "MSVCRT_AVAILABLE": False}, {"FCNTL_AVAILABLE": False, "MSVCRT_AVAILABLE": True}):
                    reached_, undec_ = scenario_walk(ctx, rel, [g.entry], dict(env_))
                    verdicts.append((not undec_) and u.id not in reached_)
                r0_, u0_ = scenario_walk(ctx, rel, [g.entry], {"FCNTL_AVAILABLE": False, "MSVCRT_AVAILABLE": False})
                ok = all(verdicts) and (u.id in r0_)
        why_ = "flock locks an inode: deleting the path would let a new process lock a different inode"
        if not ok:
            # the other sound protocol: the file is unlinked WHILE the flock is still held (no unlock / close can precede the
            # unlink) and every acquisition re-validates, after winning the flock, that the inode it locked is still the one the
            # path names (fstat vs stat, st_ino) - a waiter that won a dead inode retries
            unlock_ = [n for n in g.calls() if n.callee is not None and n.callee.kind == "prim" and n.callee.name in ("os.close", "fcntl.flock", "msvcrt.locking")]
            after_unlock = any(u.id in reachable_from(g, d_, NORMAL) for x in unlock_ for d_, l_ in g.succ[x.id] if l_ in NORMAL)
            revalidated = False
            for m_ in ctx.prog.cls("file_lock.FileLock").methods.values():
                mg_ = ctx.cfg(m_)
                locks_ = [n for n in mg_.calls() if n.callee is not None and n.callee.kind == "prim" and n.callee.name == "fcntl.flock"
                          and "LOCK_EX" in n.text]
                for lk in locks_:
                    reach_ = set().union(*[reachable_from(mg_, d_, NORMAL) for d_, l_ in mg_.succ[lk.id] if l_ in NORMAL]) if mg_.succ[lk.id] else set()
                    checks_ = [n for n in mg_.calls() if n.id in reach_ and {"os.fstat", "os.stat"} <= ctx.eff.prims_reached(m_, n)]
                    inl_ = [n for n in mg_.calls() if n.id in reach_ and n.callee is not None and n.callee.kind == "prim" and n.callee.name in ("os.fstat", "os.stat")]
                    if (checks_ or len({n.callee.name for n in inl_}) == 2) and any(
                            isinstance(x, ast.Attribute) and x.attr == "st_ino" for f_ in ctx.prog.cls("file_lock.FileLock").methods.values()
                            for x in ast.walk(f_.node)):
                        revalidated = True
            if not after_unlock and revalidated and bool(unlock_):
                ok = True
                why_ = "unlinked while the flock is still held, and every acquisition re-validates the locked inode against the path (fstat vs stat)"
            elif after_unlock and revalidated:
                why_ = ("the unlink comes AFTER the unlock / close: a waiter that already won and validated the inode loses its file, "
                        "the next contender creates and locks a fresh inode - two holders")
        ctx.ob(rid, rel, "unlink only in O_EXCL fallback mode", u, ok, why_)
    ctx.ob(rid, rel, "release unlocks / closes the descriptor", None,
           bool(ctx.calls(rel, prim="os.close")) and (bool(ctx.calls(rel, prim="fcntl.flock")) or bool(ctx.calls(rel, prim="msvcrt.locking"))),
           "LOCK_UN + close", nontrivial=False)
    # the mode flag release() branches on tells the truth: it is set True only after the O_EXCL create succeeded (a flock
    # acquisition that claims fallback mode makes release() unlink the inode every other process locks)
    fl = ctx.prog.cls("file_lock.FileLock")
    from .common import judged_in_callers
    for m in fl.methods.values():
        if judged_in_callers(ctx, m):
            continue  # a later-added helper (`_mark_acquired(fd, excl_fallback)`): judged where it is analysed in place
        mg = ctx.cfg(m)
        mdom = ctx.dom(m, NORMAL)
        for n in mg.nodes:
            if n.kind == "stmt" and isinstance(n.ast, ast.Assign) and any(norm_text(t).endswith("._used_excl_fallback") for t in n.ast.targets) \
                    and n.id in mg.reachable():
                srcs = [x for x, _a in resolve_value(ctx, m, n.ast.value, n.id)]
                if srcs and all(isinstance(x, ast.Constant) and x.value is False for x in srcs):
                    continue
                v = srcs[0] if len(srcs) == 1 else n.ast.value
                excl = [c for c in mg.calls() if c.callee is not None and c.callee.kind == "prim" and c.callee.name == "os.open"
                        and "O_EXCL" in c.text and c.id in mdom[n.id]]
                ctx.ob(rid, m, "fallback mode is claimed only after an O_EXCL create", n, isinstance(v, ast.Constant) and v.value is True and bool(excl),
                       "release() unlinks the lock file exactly when its existence is the lock" if excl else
                       f"`{n.text}` in {m.name}: a kernel-lock acquisition marked as fallback mode makes release() delete the locked inode")
    # release() ends with the flag cleared: is_held() never reports a lock that was let go
    locked_false = [n for n in g.nodes if n.kind == "stmt" and isinstance(n.ast, ast.Assign) and any(norm_text(t) == "self._locked" for t in n.ast.targets)
                    and isinstance(n.ast.value, ast.Constant) and n.ast.value.value is False]
    unlock = [n for n in g.calls() if n.callee is not None and n.callee.kind == "prim" and n.callee.name in ("os.close", "fcntl.flock", "msvcrt.locking")]
    w_ = None
    for u in unlock:
        for d_, l_ in g.succ[u.id]:
            if l_ in NORMAL and w_ is None:
                w_ = find_path(g, d_, [g.exit], avoid=[x.id for x in locked_false], labels=NORMAL) if d_ not in [x.id for x in locked_false] else None
    others = [n for n in g.nodes if n.kind == "stmt" and isinstance(n.ast, ast.Assign) and any(norm_text(t) == "self._locked" for t in n.ast.targets)
              and n not in locked_false and n.id in g.reachable()]
    ctx.ob(rid, rel, "release() clears the held flag", locked_false[0] if locked_false else None, bool(locked_false) and w_ is None and not others,
           "every normal way out after the unlock passes `self._locked = False`" if locked_false and w_ is None and not others else
           "after release() the instance still answers is_held() == True: a lock that was let go is reported as held",
           witness=ctx.path_witness(rel, w_))
    llp = ctx.prog.cls("lock_provider.LocalLockProvider")
    for m in llp.methods.values():
        direct = [n for n in ctx.cfg(m).calls() if n.callee and n.callee.kind == "prim" and n.callee.name in
                  ("os.unlink", "os.remove", "shutil.rmtree", "method.unlink", "os.rename", "os.replace")]
        ctx.ob(rid, m, f"LocalLockProvider.{m.name} never removes / renames the lock file", direct[0] if direct else None, not direct,
               "flock synchronises on the inode: the path must keep naming the same inode for every contender", nontrivial=False, text=m.name)
    sr = ctx.fn("lock_provider.S3LockProviderBase.release")
    sg = ctx.cfg(sr)
    sl = ctx.slicer(sr)
    for d in ctx.calls(sr, prim="boto.delete_object"):
        ok = False
        eq_edges = set()
        for b in [b for b in sg.nodes if b.kind == "branch" and isinstance(b.ast, ast.Compare) and "lock_id" in b.text]:
            eq = isinstance(b.ast.ops[0], ast.Eq)
            t, fl = edge_target(sg, b, "true" if eq else "false"), edge_target(sg, b, "false" if eq else "true")
            org = sl.origins(b.ast, b.id)
            rb = any(isinstance(c, ast.Call) and (dotted(c.func) or "").endswith("get_object") for c in org["calls"])
            if rb and t is not None and d.id in reachable_from(sg, t, NORMAL) and (fl is None or d.id not in reachable_from(sg, fl, NORMAL)):
                eq_edges.add((b.id, t))
        if eq_edges:
            # EVERY way to the DELETE passes a read-back-equal edge (an `owner is None or ...` side door - "could not read" taken
            # for "already gone" - deletes a lock whose owner is unknown)
            side = find_path(sg, sg.entry, [d.id], labels=NORMAL, edge_ok=lambda s_, d_, l_: (s_, d_) not in eq_edges)
            ok = side is None
        if not ok:
            # the same test carried by a flag / a record field (`owner = Owner(content, content == self.lock_id)`; `if owner.is_us`)
            for pol, e, at in facts_at(ctx, sr, d):
                if isinstance(e, ast.Compare) and len(e.ops) == 1 and "lock_id" in norm_text(e) \
                        and ((isinstance(e.ops[0], ast.Eq) and pol == "true") or (isinstance(e.ops[0], ast.NotEq) and pol == "false")) \
                        and any(isinstance(c, ast.Call) and (dotted(c.func) or "").endswith("get_object") for c in sl.origins(e, at)["calls"]):
                    ok = True
        ctx.ob(rid, sr, "delete_object only under content == lock_id", d, ok, "never delete a lock someone else now owns")


def durations_use_total_seconds(ctx: Ctx, rid: str, modules: Tuple[str, ...]) -> None:
    ctx.rule(rid, "a duration is measured whole: `.seconds` / `.microseconds` of a timedelta are COMPONENTS (seconds wraps at one day "
             "and is never negative: a lock stamped 2 s in the future reads as 86398 s old) - an age / lease / interval is "
             "`.total_seconds()`, or all three components of the same value (.days, .seconds, .microseconds) combined", 1)
    n = 0
    for m in sorted(ctx.prog.modules.values(), key=lambda x: x.name):
        if m.short not in modules:
            continue
        n += 1
        bad = []
        for fn in [x for x in ast.walk(m.tree) if isinstance(x, (ast.FunctionDef, ast.AsyncFunctionDef, ast.Lambda))]:
            reads = {}
            for x in ast.walk(fn):
                if isinstance(x, ast.Attribute) and isinstance(x.ctx, ast.Load) and x.attr in ("seconds", "microseconds", "days"):
                    reads.setdefault(norm_text(x.value), {})[x.attr] = x
            for recv, comps in reads.items():
                if ("seconds" in comps or "microseconds" in comps) and "days" not in comps:
                    bad.append((comps.get("seconds") or comps.get("microseconds"), recv))
        seen = set()
        for x, recv in bad:
            if (x.lineno, recv) in seen:
                continue
            seen.add((x.lineno, recv))
            ctx.ob(rid, None, "no partial timedelta component is used as a duration", None, False,
                   f"`{recv}.{x.attr}` without `.days`: the value wraps at 24 h and a negative difference reads as almost a day",
                   text=f"{m.short}:{recv}.{x.attr}", file=m.relpath, line=x.lineno)
        if not bad:
            ctx.ob(rid, None, "no partial timedelta component is used as a duration", None, True, "none read", nontrivial=False,
                   text=m.short, file=m.relpath, line=1)
    if n == 0:
        raise AnalysisError(f"durations_use_total_seconds: none of {modules} found")
