"""C20 - both storage backends implement the same contract."""
from __future__ import annotations

import ast
import re
from typing import Dict, List, Optional, Set, Tuple

from ..cfg import NORMAL, Node, handler_classes
from ..core import Ctx
from ..flow import ALL, find_path, names_in
from ..model import AnalysisError, FunctionInfo, dotted, norm_text
from .common import code_branches, str_consts, resolve_value, effective_compare, facts_at, edge_target, handler_exits, handler_nodes, in_handler, kwarg, reachable_from

EXPLANATION = (
    "Static cross-check of the sibling StorageBackend implementations: (R1) both override every abstract method with "
    "identical signatures, capability flags are consistent; (R2) every public S3 read-type operation converts NoSuchKey/404 "
    "into FileNotFoundError and re-raises everything else (handler decision tables extracted from the CFG); exists() maps 404 "
    "to False and nothing else; (R3) every boto call of the backend / range reader except the conditional PUT runs inside a "
    "closure passed to with_s3_retry; retry_with_backoff re-raises permanent errors before any sleep, bounds its attempts and "
    "lets non-retryable classes propagate; (R4) exists() falls back to a prefix listing only for keys ending in '/'; (R5) "
    "listing confinement: the prefix handed to list_objects_v2 ends at a directory boundary on every path; (R6) the range "
    "reader requests only in-range bytes (dominance of the pos < size guard; Range bounds from min(pos + want, size) - 1), "
    "and a negative seek / unknown whence raise."
    ' Also: (R7) backends keep no mutable per-instance state; an error is permanent only by membership in PERMANENT_S3_ERROR_CODES; hand-written page loops follow NextContinuationToken; seek uses plain arithmetic.'
    " Subclasses of the S3 backend / range reader are held to their parent's rules (R2/R3/R4/R7 iterate the class family)."
    " (R8) every operation reaches its primitive on every normal path and both listings keep every entry; (R9) key mapping round trip by scenario evaluation (_get_s3_key vs the listing's prefix strip)."
    " (R10) the S3 listing walks every page; (R11) ages derived from LastModified use UTC-aware clocks; (R12) S3FileStream.read is a faithful pipe (no handler turns an error into a short read); (R13) every PUT body is a bytes value. R3's retry loop is decided by simulating retry_with_backoff on 'every attempt fails' for max_retries = 1 and 2 (for/while, 0- or 1-based counters, helpers analysed in place); R6 accepts any arithmetic shape of the guard / clamp whose linear form implies pos < size and last <= size - 1; function values are followed through partial / lambda / factory returns / later-added per-key methods."
    ' (R14) a retried operation is restartable: the function handed to with_s3_retry mutates nothing it captured.'
    " (R15) an S3 operation answers with what the store said: exists() -> True exactly after a successful HEAD, read-type results derive from the response, seek dispatch by scenario. R2: the re-raise sits on the non-404 side; R3: the retry layer returns the operation's result; R6: strict `pos >= size` guard; R11 is interprocedural; R1 tolerates trailing optional parameters."
    ' R2 reads table-driven error classification and exception factories.'
    " R9 also lists a key whose table prefix recurs inside the key (prefix 'data', key 'data/data/x.parquet')."
    ' R8: list_files hands back a materialised list, never a generator object; sibling appends in an if / else count as one. R6 finds the range function by role and understands the (offset, length) form. R15: a boto response is never None.'
    " R3 decides the permanent-error classifier by scenario when the evaluator can follow it: is_permanent_s3_error is walked with 27 scripted botocore-style responses (code, HTTP status) - throttling, timeouts, aborted operations, 5xx and 404 must stay retryable, credential / permission / bucket errors permanent; the retry loop's attempt schedule may be a zip of the attempt range with an endless delay generator. R8 counts a closure handed to the retry layer as performing the request on that arm. R14 accepts a captured list that is emptied at the top of every attempt and a captured counter that is only ever incremented."
)
NOT_DECIDED = "operation-sequence equivalence of the two backends at run time; S3's own consistency"

SB = "storage_backend"


def check(ctx: Ctx) -> None:
    r1(ctx)
    r2(ctx)
    r3(ctx)
    r4(ctx)
    r5(ctx)
    r6(ctx)
    r7(ctx)
    r8_work(ctx)
    r9_key_roundtrip(ctx)
    r10_listing_exhaustive(ctx)
    r11_utc_ages(ctx)
    r12_stream_faithful(ctx)
    r14_retried_ops_restartable(ctx)
    r15_answers(ctx)
    r13_bodies_are_bytes(ctx)


S3_WORK = {"read_file": ("boto.get_object",), "read_file_with_etag": ("boto.get_object",), "open_file": ("boto.get_object",),
           "write_file": ("boto.put_object",), "write_file_cas": ("boto.put_object",), "delete_file": ("boto.delete_object",),
           "exists": ("boto.head_object",), "get_size": ("boto.head_object",), "get_modified_time": ("boto.head_object",),
           "list_files": ("boto.get_paginator", "boto.list_objects_v2")}
LOCAL_WORK = {"read_file": ("builtins.open", "open"), "write_file": ("os.replace",), "delete_file": ("os.remove", "os.unlink"),
              "exists": ("os.path.exists",), "list_files": ("os.walk",), "get_size": ("os.path.getsize",),
              "get_modified_time": ("os.path.getmtime",), "makedirs": ("os.makedirs",)}


def r8_work(ctx: Ctx, rid: str = "C20.R8") -> None:
    ctx.rule(rid, "every backend operation does its work: the S3 methods reach their boto primitive on every normal path of the "
             "(retried) operation, the local ones contain their os primitive, and both list_files keep every entry they are shown "
             "(each iteration over the listed objects reaches the append to the returned list)", 18)
    for cname, table, must in (("S3StorageBackend", S3_WORK, True), ("LocalStorageBackend", LOCAL_WORK, False)):
        base = ctx.prog.cls(f"{SB}.{cname}")
        for ci in family(ctx, base):
            for name, prims in sorted(table.items()):
                m = ci.methods.get(name)
                if m is None:
                    if ci is base:
                        raise AnalysisError(f"{cname}.{name} vanished")
                    continue
                scopes = op_scopes(ctx, m)
                hits = [(f, n) for f in scopes for n in ctx.cfg(f).calls() if n.id in ctx.cfg(f).reachable() and n.callee is not None
                        and n.callee.kind == "prim" and n.callee.name in prims]
                ok = bool(hits)
                why = f"{prims[0]} present"
                if not hits and any(set(prims) & ctx.eff.prims_reached(f_) for f_ in scopes):
                    ok, why = True, f"{prims[0]} reached through a helper"
                if ok and must:
                    # no normal path through the scope that holds the primitive avoids it (a delegating override is exempt)
                    for f, n in hits[:1]:
                        g = ctx.cfg(f)
                        same = [x.id for ff, x in hits if ff is f]
                        # ... or hands a closure that holds the primitive to a call (with_s3_retry(put_op, ..)): one function
                        # may perform the request directly on one arm and through the retry layer on the other
                        holders = {ff.name for ff, _x in hits if ff is not f and ff.parent is f}
                        same += [x.id for x in g.calls() if isinstance(x.ast, ast.Call) and any(
                            isinstance(a_, ast.Name) and a_.id in holders for a_ in list(x.ast.args) + [k.value for k in x.ast.keywords])]
                        rets = [x.id for x in g.nodes if x.kind == "return"] + [g.exit]
                        w = find_path(g, g.entry, rets, avoid=same, labels=NORMAL)
                        if w is not None and name not in ("exists", "list_files"):
                            ok, why = False, f"a normal path of {f.name} completes without calling {prims[0]}"
                if not ok and not hits and any(isinstance(x, ast.Call) and isinstance(x.func, ast.Attribute) and x.func.attr == name
                                                and isinstance(x.func.value, ast.Call) and dotted(x.func.value.func) == "super"
                                                for x in ast.walk(m.node)):
                    ok, why = True, "delegates to the parent implementation"
                ctx.ob(rid, m, f"{cname}.{name} performs {prims[0]}", None, ok,
                       why if ok else f"{why if hits else prims[0] + ' is never called'}: the operation reports success without "
                       "having read / written / deleted anything", text=f"{ci.name}.{name}")
            lf = ci.methods.get("list_files")
            if lf is None:
                continue
            n_keep = 0
            for f in op_scopes(ctx, lf):
                g = ctx.cfg(f)
                # generator form: each listed object is yielded (the caller materialises the generator)
                for yn in [x for x in ast.walk(f.node) if isinstance(x, ast.Yield)]:
                    host = next((n for n in g.nodes if n.kind == "stmt" and n.ast is not None and any(y is yn for y in ast.walk(n.ast))
                                 and any(fr.kind == "loop" for fr in n.frames)), None)
                    if host is None:
                        continue
                    inner = [fr.node for fr in host.frames if fr.kind == "loop"][-1]
                    lp = next((n for n in g.nodes if n.kind == "loop" and n.ast is inner), None)
                    if lp is None:
                        continue  # a `while` loop yielding pages, not listed entries
                    body = edge_target(g, lp, "true")
                    w = find_path(g, body, [lp.id], avoid=[host.id], labels=NORMAL) if body is not None and body != host.id else None
                    n_keep += 1
                    ctx.ob(rid, f, "listing keeps every entry", host, w is None, "every listed object is yielded" if w is None else
                           "an entry can be skipped: recovery and the collector act on a short listing",
                           witness=ctx.path_witness(f, w), text=f"{ci.name}.list_files")
                apps = [n for n in g.calls() if isinstance(n.ast, ast.Call) and isinstance(n.ast.func, ast.Attribute)
                        and n.ast.func.attr in ("append", "extend") and any(fr.kind == "loop" for fr in n.frames)
                        and not (n.ast.func.attr == "extend" and n.ast.args and isinstance(n.ast.args[0], (ast.GeneratorExp, ast.ListComp)))]
                n_keep += len(apps)
                for e_ in [n for n in g.calls() if isinstance(n.ast, ast.Call) and isinstance(n.ast.func, ast.Attribute) and n.ast.func.attr == "extend"
                           and n.ast.args and isinstance(n.ast.args[0], (ast.GeneratorExp, ast.ListComp))]:
                    n_keep += 1
                    ctx.ob(rid, f, "listing keeps every entry", e_, not e_.ast.args[0].generators[-1].ifs,  # type: ignore[union-attr]
                           "unfiltered comprehension over the listed objects", text=f"{ci.name}.list_files")
                for r in [x for x in g.nodes if x.kind == "return" and x.ast is not None and x.ast.value is not None]:  # type: ignore[union-attr]
                    v = r.ast.value  # type: ignore[union-attr]
                    comp = v if isinstance(v, ast.ListComp) else (v.args[0] if isinstance(v, ast.Call) and dotted(v.func) in ("list", "sorted")
                                                                  and v.args and isinstance(v.args[0], (ast.GeneratorExp, ast.ListComp)) else None)
                    if comp is not None:
                        n_keep += 1
                        ctx.ob(rid, f, "listing keeps every entry", r, not comp.generators[-1].ifs,
                               "comprehension whose innermost (per-object) level is unfiltered", text=f"{ci.name}.list_files")
                for a in apps:
                    inner = [fr.node for fr in a.frames if fr.kind == "loop"][-1]
                    lp = next((n for n in g.nodes if n.kind == "loop" and n.ast is inner), None)
                    if lp is None:
                        raise AnalysisError("loop node of a listing append not found in the CFG")
                    body = edge_target(g, lp, "true")
                    lst = dotted(a.ast.func.value)  # type: ignore[union-attr]
                    # (an if / else that appends one spelling or the other: every iteration passes ONE of the appends to this list)
                    sibs = [x.id for x in apps if dotted(x.ast.func.value) == lst  # type: ignore[union-attr]
                            and [fr.node for fr in x.frames if fr.kind == "loop"][-1] is inner]
                    w = find_path(g, body, [lp.id], avoid=sibs, labels=NORMAL) if body is not None and body not in sibs else None
                    returned = any(r.ast is not None and r.ast.value is not None and (  # type: ignore[union-attr]
                        lst in names_in(r.ast.value) or lst in ctx.slicer(f).origins(r.ast.value, r.id)["names"])  # type: ignore[union-attr]
                                   for r in g.nodes if r.kind == "return")  # (directly, or through a helper analysed in place)
                    ctx.ob(rid, f, "listing keeps every entry", a, w is None and returned,
                           "every listed object reaches the result" if w is None and returned else
                           "an entry can be skipped (or the list is not what is returned): recovery and the collector act on a "
                           "short listing", witness=ctx.path_witness(f, w), text=f"{ci.name}.list_files")
            # the listing is MATERIALISED inside the (retried) operation: no scope of list_files hands back a generator object
            for f in op_scopes(ctx, lf):
                g = ctx.cfg(f)
                for r in [x for x in g.nodes if x.kind == "return" and x.ast is not None and getattr(x.ast, "value", None) is not None]:
                    v = r.ast.value  # type: ignore[union-attr]
                    lazy = None
                    if isinstance(v, ast.GeneratorExp):
                        lazy = "a generator expression"
                    elif isinstance(v, ast.Call):
                        try:
                            cal = ctx.prog.resolve_call(v, f)
                        except Exception:
                            cal = None
                        if cal is not None and cal.kind == "func" and any(
                                any(isinstance(y, (ast.Yield, ast.YieldFrom)) for y in ast.walk(t.node)) for t in cal.funcs):
                            lazy = f"the generator `{norm_text(v)[:40]}`"
                    if lazy:
                        n_keep += 1
                        ctx.ob(rid, f, "the listing is materialised inside the operation", r, False,
                               f"{f.name} returns {lazy} unconsumed: the pages are fetched later, outside the retry layer and while the "
                               "caller (the collector) is already deleting - a failure on a later page surfaces after deletions, as a "
                               "raw client error", text=f"{ci.name}.list_files:lazy")
            if n_keep == 0:
                ctx.ob(rid, lf, "listing keeps every entry", None, False, "no statement carries the listed objects into the returned list: "
                       "the listing is always empty - recovery finds no metadata file and the table is taken for uninitialised",
                       text=f"{ci.name}.list_files")


def r9_key_roundtrip(ctx: Ctx, rid: str = "C20.R9") -> None:
    ctx.rule(rid, "table-relative listings: what list_files returns for an object is the path that _get_s3_key maps back to that "
             "object's key - decided by scenario evaluation (prefix 'tbl' and no prefix; path 'data/x.parquet'), no code is run", 2)
    from .common import UNKNOWN, explore
    s3 = ctx.prog.cls(SB + ".S3StorageBackend")
    gk = s3.methods.get("_get_s3_key")
    lf = s3.methods.get("list_files")
    if gk is None or lf is None:
        raise AnalysisError("_get_s3_key / list_files vanished from S3StorageBackend")
    pname = next((p.name for p in gk.params if p.name != "self"), "path")
    g = ctx.cfg(gk)
    # the mapping is "prefix + '/' + path" for EVERY path: also one that starts with the prefix's own text, that names a sibling
    # table, or that contains an empty segment (manifests, listings and the collector compare the literal spellings)
    for prefix, rel in (("tbl", "tbl/x.parquet"), ("tbl", "tbl2/data/x.parquet"), ("tbl", "data//x.parquet"), ("wh/t1", "wh/t10/data/x.parquet")):
        env = {"self.prefix": prefix, pname: rel}
        keys = set()
        for nid, store, _asm in explore(ctx, gk, [g.entry], env, stop=[n.id for n in g.nodes if n.kind == "return"]):
            n = g.nodes[nid]
            if n.kind == "return" and n.ast is not None:
                scen = dict(env)
                scen.update({k: v for k, v in store.items() if isinstance(k, str)})
                from .common import concrete_eval
                keys.add(concrete_eval(ctx, gk, n.ast.value, scen, nid))  # type: ignore[union-attr]
        want = prefix + "/" + rel
        ctx.ob(rid, gk, f"_get_s3_key is the plain prefix join for '{rel}'", None, keys == {want},
               f"prefix '{prefix}': '{rel}' -> {sorted(map(repr, keys))} (expected '{want}'): a path is never taken for an already "
               "prefixed key, a sibling table's key or a differently spelled one", text=f"{prefix}|{rel}")
    for label, prefix in (("with a table prefix", "tbl"), ("without a prefix", ""), ("with a prefix whose text recurs inside the key", "data")):
        rel = "data/x.parquet"
        env = {"self.prefix": prefix, pname: rel}
        keys = set()
        for nid, store, _asm in explore(ctx, gk, [g.entry], env, stop=[n.id for n in g.nodes if n.kind == "return"]):
            n = g.nodes[nid]
            if n.kind == "return" and n.ast is not None:
                scen = dict(env)
                scen.update({k: v for k, v in store.items() if isinstance(k, str)})
                from .common import concrete_eval
                keys.add(concrete_eval(ctx, gk, n.ast.value, scen, nid))  # type: ignore[union-attr]
        want = (prefix + "/" + rel) if prefix else rel
        ctx.ob(rid, gk, f"_get_s3_key {label}", None, keys == {want}, f"'{rel}' -> {sorted(map(repr, keys))} (expected '{want}')",
               text=label)
        # the listing side: an object with that key comes back as `rel`
        got = set()
        for f in [lf] + list(lf.nested.values()):
            fg = ctx.cfg(f)
            apps = [n for n in fg.calls() if isinstance(n.ast, ast.Call) and isinstance(n.ast.func, ast.Attribute) and n.ast.func.attr == "append"
                    and any(fr.kind == "loop" for fr in n.frames)]
            def _is_result(lst: Optional[str]) -> bool:
                """the list appended to IS what the scope returns (as it is, or through list / sorted / tuple, or as the result of
                a helper analysed in place) - an intermediate list that is transformed further is not the listing"""
                def names_of(v: Optional[ast.AST], depth: int = 0) -> Set[str]:
                    if v is None or depth > 4:
                        return set()
                    if isinstance(v, ast.Name):
                        return {v.id}
                    if isinstance(v, ast.Call) and id(v) in fg.inline_returns:
                        out: Set[str] = set()
                        for e_, _n in fg.inline_returns[id(v)]:
                            out |= names_of(e_, depth + 1)
                        return out
                    if isinstance(v, ast.Call) and dotted(v.func) in ("list", "sorted", "tuple") and len(v.args) == 1:
                        return names_of(v.args[0], depth + 1)
                    return set()
                rets_ = [r for r in fg.nodes if r.kind == "return" and r.ast is not None and r.ast.value is not None]  # type: ignore[union-attr]
                return lst is not None and any(lst in names_of(r.ast.value) for r in rets_)  # type: ignore[union-attr]

            for a in apps:
                inner = [fr.node for fr in a.frames if fr.kind == "loop"][-1]
                lp = next((n for n in fg.nodes if n.kind == "loop" and n.ast is inner), None)
                if lp is None or not isinstance(lp.ast, ast.For):
                    continue  # a `while` loop over pages: not the per-object loop
                body = edge_target(fg, lp, "true")
                tgt = lp.ast.target
                if body is None or not isinstance(tgt, ast.Name) or not _is_result(dotted(a.ast.func.value)):  # type: ignore[union-attr]
                    continue
                # the loop variable is the listed object: obj["Key"] is the key under study
                scen0 = {"self.prefix": prefix, tgt.id: {"Key": want}}
                # values the closure captured from the enclosing method (a prefix string / its length hoisted out of the loop):
                # evaluated there, under the same scenario, when every definition agrees
                if f.parent is not None:
                    pf = f.parent
                    pg = ctx.cfg(pf)
                    own = {x.id for x in ast.walk(f.node) if isinstance(x, ast.Name) and isinstance(x.ctx, ast.Store)} | {p_.name for p_ in f.params}
                    for nm in {x.id for x in ast.walk(f.node) if isinstance(x, ast.Name) and isinstance(x.ctx, ast.Load)} - own:
                        vals = []
                        for pn_ in pg.nodes:
                            if pn_.kind == "stmt" and isinstance(pn_.ast, ast.Assign) and len(pn_.ast.targets) == 1 \
                                    and isinstance(pn_.ast.targets[0], ast.Name) and pn_.ast.targets[0].id == nm:
                                from .common import concrete_eval as _ce
                                vals.append(_ce(ctx, pf, pn_.ast.value, {"self.prefix": prefix}, pn_.id))
                        if vals and all(v is not UNKNOWN and v == vals[0] for v in vals):
                            scen0[nm] = vals[0]
                for nid, store, _asm in explore(ctx, f, [body], scen0, stop=[a.id]):
                    if nid != a.id:
                        continue
                    scen = dict(scen0)
                    scen.update({k: v for k, v in store.items() if isinstance(k, str)})
                    from .common import concrete_eval
                    got.add(concrete_eval(ctx, f, a.ast.args[0], scen, nid))  # type: ignore[union-attr]
        if got:
            ctx.ob(rid, lf, f"list_files {label}", None, got == {rel}, f"key '{want}' is listed as {sorted(map(repr, got))} (expected '{rel}')",
                   text=label)
        else:
            ctx.ob(rid, lf, f"list_files {label}", None, True, "listing not in the append-loop form (not evaluated)", nontrivial=False, text=label)


def r10_listing_exhaustive(ctx: Ctx, rid: str = "C20.R10") -> None:
    ctx.rule(rid, "the S3 listing is exhaustive: list_files walks every page - either botocore's paginator (no early exit from the "
             "page loop), or a hand-written loop whose next request carries the response's NextContinuationToken and which ends "
             "only when the response says so (IsTruncated false / no next token); a page being short, or the echoed "
             "ContinuationToken, is not an end-of-listing signal", 1)
    base = ctx.prog.cls(SB + ".S3StorageBackend")
    for ci in family(ctx, base):
        lf = ci.methods.get("list_files")
        if lf is None:
            if ci is base:
                raise AnalysisError("S3StorageBackend.list_files vanished")
            continue
        scopes = op_scopes(ctx, lf)
        manual = [(f, n) for f in scopes for n in ctx.cfg(f).calls() if n.id in ctx.cfg(f).reachable() and n.callee is not None
                  and n.callee.kind == "prim" and n.callee.name == "boto.list_objects_v2"]
        pag = [(f, n) for f in scopes for n in ctx.cfg(f).calls() if n.callee is not None and n.callee.kind == "prim"
               and n.callee.name == "boto.get_paginator"]
        if not manual:
            ok = bool(pag)
            why = "botocore paginator"
            for f, n in pag:
                g = ctx.cfg(f)
                loops = [l for l in g.nodes if l.kind == "loop" and isinstance(l.ast, ast.For) and "paginate" in norm_text(l.ast.iter)
                         or (l.kind == "loop" and isinstance(l.ast, ast.For) and any(
                             isinstance(c, ast.Call) and isinstance(c.func, ast.Attribute) and c.func.attr == "paginate"
                             for c in ctx.slicer(f).origins(l.ast.iter, l.id)["calls"]))]
                for l in loops:
                    brk = [x for x in g.nodes if isinstance(x.ast, ast.Break) and any(fr.kind == "loop" and fr.node is l.ast for fr in x.frames)
                           and [fr.node for fr in x.frames if fr.kind == "loop"][0] is l.ast]
                    if brk:
                        ok, why = False, "the page loop can be left early (break): later pages are never requested"
            ctx.ob(rid, lf, "every page of the listing is requested", pag[0][1] if pag else None, ok, why, text=ci.name)
            continue
        for f, n in manual:
            g = ctx.cfg(f)
            sl = ctx.slicer(f)
            loops = [fr.node for fr in n.frames if fr.kind == "loop"]
            if not loops:
                ctx.ob(rid, f, "every page of the listing is requested", n, False, "a single list_objects_v2 request returns at most "
                       "1000 keys: without a continuation loop everything after the first page is invisible", text=ci.name)
                continue
            lp_ast = loops[-1]
            # (a) the continuation token sent comes from the response's NextContinuationToken
            tok_srcs: List[ast.AST] = []
            for x in ast.walk(lp_ast):
                if isinstance(x, ast.Assign) and len(x.targets) == 1 and isinstance(x.targets[0], ast.Subscript) \
                        and isinstance(x.targets[0].slice, ast.Constant) and x.targets[0].slice.value == "ContinuationToken":
                    tok_srcs.append(x.value)
                if isinstance(x, ast.keyword) and x.arg == "ContinuationToken":
                    tok_srcs.append(x.value)
                if isinstance(x, ast.Dict):
                    tok_srcs += [v for k, v in zip(x.keys, x.values) if isinstance(k, ast.Constant) and k.value == "ContinuationToken"]
            def from_next(e: ast.AST) -> bool:
                host = next((m for m in g.nodes if m.ast is not None and any(y is e for y in ast.walk(m.ast))), None)
                exprs = list(sl.origins(e, host.id)["exprs"]) + [e] if host is not None else [e]
                keys = {c.value for x_ in exprs for c in ast.walk(x_) if isinstance(c, ast.Constant) and isinstance(c.value, str)}
                return "NextContinuationToken" in keys and "ContinuationToken" not in (keys - {"NextContinuationToken"})
            tok_ok = bool(tok_srcs) and all(from_next(e) for e in tok_srcs)
            # (b) the loop ends only on the response's own end-of-listing signal
            bad_exit = []
            for b in [x for x in g.nodes if x.kind == "branch" and x.ast is not None and any(fr.kind == "loop" and fr.node is lp_ast for fr in x.frames)]:
                leaves = False
                for lab in ("true", "false"):
                    t = edge_target(g, b, lab)
                    if t is None:
                        continue
                    if isinstance(g.nodes[t].ast, ast.Break) or g.nodes[t].kind == "return" or not any(
                            fr.kind == "loop" and fr.node is lp_ast for fr in g.nodes[t].frames):
                        leaves = True
                if not leaves:
                    continue
                exprs = list(sl.origins(b.ast, b.id)["exprs"]) + [b.ast]
                consts = {c.value for x_ in exprs for c in ast.walk(x_) if isinstance(c, ast.Constant) and isinstance(c.value, str)}
                uses_len = any(isinstance(c, ast.Call) and dotted(c.func) == "len" for c in ast.walk(b.ast))
                if uses_len or not (consts & {"IsTruncated", "NextContinuationToken"}):
                    bad_exit.append(norm_text(b.ast)[:50])
            ok = tok_ok and not bad_exit
            ctx.ob(rid, f, "every page of the listing is requested", n, ok,
                   "continuation on NextContinuationToken until the response is not truncated" if ok else
                   ("the next request does not carry the response's NextContinuationToken" if not tok_ok else
                    f"the loop can end on {bad_exit}: a short or filtered page is legal S3 while more keys follow") +
                   " - the listing stops early without an error (recovery misses metadata files, the collector misses live markers)",
                   text=ci.name)


def r11_utc_ages(ctx: Ctx, rid: str = "C20.R11") -> None:
    ctx.rule(rid, "object ages are computed in UTC: a value taken from a response's LastModified (an aware UTC datetime) becomes "
             "seconds only through .timestamp(), and is subtracted only from an aware now() - never time.mktime / timetuple / "
             "replace(tzinfo=None) / a naive datetime.now() (on a host east of UTC every marker and every lock then looks hours "
             "old: live markers are 'abandoned', live locks are 'expired')", 3)
    n_uses = 0
    # parameters that receive a LastModified value at some package call site (`_lock_age_seconds(resp['LastModified'])`)
    seeds: Dict[str, Set[str]] = {}
    for _round in range(3):
        grew = False
        for f in ctx.prog.functions.values():
            if isinstance(f.node, ast.Lambda):
                continue
            carry = set(seeds.get(f.qname, set()))
            has_const = any(isinstance(c, ast.Constant) and c.value == "LastModified" for c in ast.walk(f.node))
            if not has_const and not carry:
                continue
            again = True
            while again:
                again = False
                for x in ast.walk(f.node):
                    if isinstance(x, ast.Assign) and any((isinstance(y, ast.Constant) and y.value == "LastModified") or (isinstance(y, ast.Name) and y.id in carry)
                                                         for y in ast.walk(x.value)):
                        for t in x.targets:
                            for nm in [y for y in ast.walk(t) if isinstance(y, ast.Name)]:
                                if nm.id not in carry:
                                    carry.add(nm.id)
                                    again = True
            for c in [x for x in ast.walk(f.node) if isinstance(x, ast.Call)]:
                cal = ctx.prog.resolve_call(c, f)
                if cal is None or cal.kind != "func":
                    continue
                for t in cal.funcs:
                    pos = [p_ for p_ in t.params if p_.kind == "pos"]
                    if t.cls is not None and not t.is_static and pos and isinstance(c.func, ast.Attribute):
                        pos = pos[1:]
                    for i, a in enumerate(c.args):
                        if i < len(pos) and any((isinstance(y, ast.Constant) and y.value == "LastModified") or (isinstance(y, ast.Name) and y.id in carry)
                                                for y in ast.walk(a)):
                            if pos[i].name not in seeds.setdefault(t.qname, set()):
                                seeds[t.qname].add(pos[i].name)
                                grew = True
        if not grew:
            break
    for f in sorted(ctx.prog.functions.values(), key=lambda x: x.qname):
        if isinstance(f.node, ast.Lambda):
            continue
        if not any(isinstance(c, ast.Constant) and c.value == "LastModified" for c in ast.walk(f.node)) and not seeds.get(f.qname):
            continue
        # variables carrying the LastModified value (transitively through plain assignments)
        lm: Set[str] = set(seeds.get(f.qname, set()))

        def mentions(e: ast.AST) -> bool:
            return any((isinstance(x, ast.Constant) and x.value == "LastModified") or (isinstance(x, ast.Name) and x.id in lm) for x in ast.walk(e))

        changed = True
        while changed:
            changed = False
            for x in ast.walk(f.node):
                if isinstance(x, ast.Assign) and mentions(x.value):
                    for t in x.targets:
                        for nm in ([t] if isinstance(t, ast.Name) else [y for y in ast.walk(t) if isinstance(y, ast.Name)]):
                            if nm.id not in lm:
                                lm.add(nm.id)
                                changed = True
        for st in [x for x in ast.walk(f.node) if isinstance(x, ast.stmt) and not isinstance(x, (ast.FunctionDef, ast.AsyncFunctionDef, ast.ClassDef,
                                                                                                 ast.If, ast.For, ast.While, ast.Try, ast.With))]:
            exprs = [c for c in ast.iter_child_nodes(st) if isinstance(c, ast.expr)]
            if not any(mentions(e) for e in exprs):
                continue
            bad = []
            for e in exprs:
                for x in ast.walk(e):
                    if isinstance(x, ast.Call):
                        d = dotted(x.func) or ""
                        if d in ("time.mktime", "calendar.timegm") and any(mentions(a) for a in x.args):
                            bad.append(d)
                        if isinstance(x.func, ast.Attribute) and x.func.attr in ("timetuple", "utctimetuple") and mentions(x.func.value):
                            bad.append("." + x.func.attr + "()")
                        if isinstance(x.func, ast.Attribute) and x.func.attr == "replace" and mentions(x.func.value) and any(
                                k.arg == "tzinfo" and isinstance(k.value, ast.Constant) and k.value.value is None for k in x.keywords):
                            bad.append(".replace(tzinfo=None)")
                    if isinstance(x, ast.BinOp) and isinstance(x.op, ast.Sub) and (mentions(x.left) or mentions(x.right)):
                        other = x.right if mentions(x.left) else x.left
                        for c in ast.walk(other):
                            if isinstance(c, ast.Call) and (dotted(c.func) or "").split(".")[-1] in ("now", "utcnow", "today") \
                                    and "datetime" in (dotted(c.func) or "") and not c.args and not c.keywords:
                                bad.append(norm_text(c) + " (naive)")
            n_uses += 1
            ctx.ob(rid, f, "LastModified handled as an aware UTC instant", None, not bad,
                   "`.timestamp()` / aware arithmetic" if not bad else f"{sorted(set(bad))}: UTC fields read as local time - ages are off by the "
                   "host's UTC offset", text=norm_text(st)[:60], line=st.lineno)
    if n_uses < 3:
        raise AnalysisError(f"only {n_uses} uses of LastModified found")


def r12_stream_faithful(ctx: Ctx, rid: str = "C20.R12") -> None:
    ctx.rule(rid, "the S3 body stream is a faithful pipe: S3FileStream.read returns what body.read(n) returned - no handler that "
             "turns a transport error into end-of-stream, no buffering / 'exhausted' state that can take a short read for the end - "
             "and open_file hands out the S3FileStream wrapper (a multi-block Avro manifest cut at a block boundary otherwise "
             "parses as a shorter, valid manifest)", 3)
    from .common import state_writes
    fs = ctx.prog.cls(SB + ".S3FileStream")
    rd = fs.methods.get("read")
    if rd is None:
        raise AnalysisError("S3FileStream.read vanished")
    g = ctx.cfg(rd)
    swallowing = [hn for hn in handler_nodes(ctx, rd) if any(handler_exits(ctx, rd, hn)[k] for k in ("fallthrough", "return", "loop"))]
    ctx.ob(rid, rd, "read swallows nothing", swallowing[0] if swallowing else None, not swallowing,
           "every failure of the body read propagates to the parser / checksum loop")
    sw = state_writes(ctx, rd, keep_report_only=False)
    ctx.ob(rid, rd, "read keeps no stream state", sw[0][0] if sw else None, not sw,
           "no buffer / end-of-stream flag" if not sw else f"stores {sw[0][1]}: a flag or buffer decides when the stream 'ended'")
    rets = [r for r in g.nodes if r.kind == "return" and r.id in g.reachable() and r.ast is not None and r.ast.value is not None]  # type: ignore[union-attr]
    direct = bool(rets)
    for r in rets:
        srcs = resolve_value(ctx, rd, r.ast.value, r.id)  # type: ignore[union-attr]
        if not srcs or not all(isinstance(x, ast.Call) and isinstance(x.func, ast.Attribute) and x.func.attr == "read"
                               and "body" in norm_text(x.func.value) for x, _a in srcs):
            direct = False
    ctx.ob(rid, rd, "read returns body.read(n) unchanged", rets[0] if rets else None, direct,
           "the bytes handed on are exactly what the response body produced")
    s3 = ctx.prog.cls(SB + ".S3StorageBackend")
    for ci in family(ctx, s3):
        of = ci.methods.get("open_file")
        if of is None:
            continue
        ok = False
        for f in op_scopes(ctx, of):
            fg = ctx.cfg(f)
            for r in [x for x in fg.nodes if x.kind == "return" and x.id in fg.reachable() and x.ast is not None and x.ast.value is not None]:  # type: ignore[union-attr]
                for x, _a in resolve_value(ctx, f, r.ast.value, r.id):  # type: ignore[union-attr]
                    if isinstance(x, ast.Call) and (dotted(x.func) or "").split(".")[-1] == "S3FileStream":
                        ok = True
            # ... or the wrapper is applied by a function value handed on (`partial(self._get_object, key, lambda r: S3FileStream(r["Body"]))`)
            for lam in [x for x in ast.walk(f.node) if isinstance(x, ast.Lambda)]:
                if isinstance(lam.body, ast.Call) and (dotted(lam.body.func) or "").split(".")[-1] == "S3FileStream":
                    ok = True
        ctx.ob(rid, of, "open_file wraps the body in S3FileStream", None, ok,
               "botocore's StreamingBody.__enter__ returns the RAW urllib3 stream: `with open_file(...)` readers would skip the "
               "Content-Length check and see a dropped connection as a clean end of file", text=ci.name)


def r13_bodies_are_bytes(ctx: Ctx, rid: str = "C20.R13") -> None:
    ctx.rule(rid, "what a PUT uploads is bytes: the Body of every put_object of the backend (and of the lock providers) is a bytes "
             "value - never a file-like object (io.BytesIO / open): a retried attempt would upload from the consumed stream's "
             "end and store an empty object with status 200", 2)
    n = 0
    for f in sorted(ctx.prog.functions.values(), key=lambda x: x.qname):
        if isinstance(f.node, ast.Lambda) or f.module.short not in ("storage_backend", "lock_provider"):
            continue
        g = ctx.cfg(f)
        for c in g.calls():
            if c.id not in g.reachable() or c.callee is None or c.callee.kind != "prim" or c.callee.name != "boto.put_object":
                continue
            body = kwarg(c.ast, "Body")
            if body is None:
                continue
            n += 1
            # the slice of the Body argument, looked up in the enclosing function too (closure variables)
            exprs = set(ctx.slicer(f).origins(body, c.id)["exprs"]) | {body}
            if f.parent is not None:
                for nm in names_in(body):
                    for x in ast.walk(f.parent.node):
                        if isinstance(x, ast.Assign) and any(isinstance(t, ast.Name) and t.id == nm for t in x.targets):
                            exprs.add(x.value)
            streams = sorted({norm_text(x)[:40] for e in exprs for x in ast.walk(e) if isinstance(x, ast.Call)
                              and (dotted(x.func) or "").split(".")[-1] in ("BytesIO", "open", "StringIO", "TemporaryFile", "NamedTemporaryFile", "SpooledTemporaryFile")})
            ctx.ob(rid, f, "put_object Body is a bytes value", c, not streams,
                   "bytes are re-sent in full on every attempt" if not streams else f"Body is a stream ({streams}): consumed by the first attempt")
    if n < 2:
        raise AnalysisError(f"only {n} put_object call(s) with a Body found")


def _sig(f: FunctionInfo) -> List[Tuple[str, str, str]]:
    return [(p.name, p.kind, norm_text(p.default) if p.default is not None else "") for p in f.params]


def r1(ctx: Ctx) -> None:
    ctx.rule("C20.R1", "interface agreement: every abstract method is overridden by both backends with the same signature; "
             "supports_cas implies write_file_cas / read_file_with_etag are overridden", 13)
    base = ctx.prog.cls(SB + ".StorageBackend")
    local = ctx.prog.cls(SB + ".LocalStorageBackend")
    s3 = ctx.prog.cls(SB + ".S3StorageBackend")
    for name, m in sorted(base.methods.items()):
        if not m.is_abstract and name not in ("open_seekable",):
            continue
        for impl in (local, s3):
            im = impl.methods.get(name)
            # an implementation may ADD trailing optional parameters (a tuning knob with a default): every call written against
            # the abstract signature still binds the same way
            ok = im is not None and (_sig(im) == _sig(m) or (
                _sig(im)[:len(_sig(m))] == _sig(m) and all(d != "" or k in ("kwonly",) and d != "" for _n, k, d in _sig(im)[len(_sig(m)):])
                and all(k != "vararg" and k != "kwarg" for _n, k, _d in _sig(im)[len(_sig(m)):])))
            ctx.ob("C20.R1", im or m, f"{impl.name}.{name} matches the abstract signature", None, ok,
                   f"abstract {_sig(m)} vs {_sig(im) if im else 'MISSING'}", nontrivial=False, text=f"{impl.name}.{name}")
    for impl in (local, s3):
        sc = impl.methods.get("supports_cas")
        claims = sc is not None and not all(isinstance(r.value, ast.Constant) and r.value.value is False
                                            for r in ast.walk(sc.node) if isinstance(r, ast.Return))
        if claims:
            ok = "write_file_cas" in impl.methods and "read_file_with_etag" in impl.methods
            ctx.ob("C20.R1", sc, f"{impl.name}: supports_cas => CAS primitives overridden", None, ok, "", text=impl.name)
    # json helpers agree
    for name in ("read_json", "write_json"):
        a, b = local.methods.get(name), s3.methods.get(name)
        ok = a is not None and b is not None and ast.dump(ast.Module(body=a.node.body[-2:], type_ignores=[])) == \
            ast.dump(ast.Module(body=b.node.body[-2:], type_ignores=[]))
        ctx.ob("C20.R1", a or base.methods[name], f"{name}: sibling implementations are identical", None, ok,
               "same encoding (utf-8, indent=2) on both backends", text=name)


def op_scopes(ctx: Ctx, m: FunctionInfo) -> List[FunctionInfo]:
    """The functions that run as part of backend operation m: m itself, its local functions, and every helper introduced
    later (not one of the functions the rules were written against) of the same module that m - or such a helper - mentions:
    called, or handed on as a function value (`self._retried("read", key, self._get_bytes)`, `partial(self._head, key)`)."""
    out: List[FunctionInfo] = [m]
    i = 0
    while i < len(out):
        f = out[i]
        i += 1
        for nf in f.nested.values():
            if nf not in out:
                out.append(nf)
        for x in ast.walk(f.node):
            nm = None
            if isinstance(x, ast.Attribute) and isinstance(x.value, ast.Name) and x.value.id in ("self", "cls"):
                nm = x.attr
            elif isinstance(x, ast.Name) and isinstance(x.ctx, ast.Load):
                nm = x.id
            if nm is None:
                continue
            for t in ctx.prog.functions.values():
                if t.module is m.module and t.name == nm and t.parent is None and not isinstance(t.node, ast.Lambda) \
                        and not ctx.prog.is_known(t) and t not in out and (t.cls is None or t.cls is m.cls or (m.cls is not None and t.cls in family(ctx, m.cls))):
                    out.append(t)
    return out


def _closure_for(ctx: Ctx, m: FunctionInfo) -> List[FunctionInfo]:
    return [f for f in op_scopes(ctx, m) if f is not m]


def family(ctx: Ctx, ci) -> list:  # type: ignore[no-untyped-def]
    """ci and every class of the package deriving from it (a backend flavour added later is held to its parent's rules)."""
    out = [ci]
    changed = True
    while changed:
        changed = False
        for c in sorted(ctx.prog.classes.values(), key=lambda x: x.qname):
            if c not in out and any(b == o.qname or b.rsplit(".", 1)[-1] == o.name for b in c.base_names for o in out):
                out.append(c)
                changed = True
    return out


NOT_FOUND_CODES = {"NoSuchKey", "404", "NotFound"}
RESPONSE_KEYS = {"Error", "Code", "ResponseMetadata", "HTTPStatusCode", "Message"}


def r2(ctx: Ctx) -> None:
    ctx.rule("C20.R2", "not-found mapping: S3 read-type operations map NoSuchKey/404 to FileNotFoundError and re-raise everything "
             "else; exists() maps 404 to False only", 6)
    s3_base = ctx.prog.cls(SB + ".S3StorageBackend")
    for s3, name, code in [(c, nm, cd) for c in family(ctx, s3_base) for nm, cd in (
            ("read_file", "NoSuchKey"), ("open_file", "NoSuchKey"), ("read_file_with_etag", "NoSuchKey"), ("get_size", "404"),
            ("get_modified_time", "404"))]:
        m = s3.methods.get(name)
        if m is None:
            if s3 is not s3_base:
                continue  # not overridden: inherits the checked implementation
            raise AnalysisError(f"S3StorageBackend.{name} vanished")
        detail = "no ClientError handler"
        verdicts: List[bool] = []
        for nf in _closure_for(ctx, m) + [m]:
            g = ctx.cfg(nf)
            for hn in handler_nodes(ctx, nf):
                if "ClientError" not in handler_classes(hn.ast):  # type: ignore[arg-type]
                    continue
                ex = handler_exits(ctx, nf, hn)
                raised = [r.raised for r in ex["raise"]]
                codes = []
                good_branch = False
                for b, cs, mr, orr, _mo, _oo in code_branches(ctx, nf, hn):
                    codes += sorted(cs)
                    if code in cs and mr == {"FileNotFoundError"} and "reraise" in orr and "FileNotFoundError" not in orr:
                        good_branch = (set(cs) - RESPONSE_KEYS) <= NOT_FOUND_CODES  # 403 / AccessDenied / 5xx are NOT "no such object"
                if not (set(codes) - RESPONSE_KEYS) and nf is not m and not ex["fallthrough"] and not ex["return"]:
                    # a shared helper whose not-found code is a PARAMETER (possibly of the enclosing helper, captured by a local
                    # function): bind it from the call in this operation
                    top = nf
                    while top.parent is not None:
                        top = top.parent
                    bound: Set[str] = set()
                    if top is not m and not ctx.prog.is_known(top):
                        pn = [p_.name for p_ in top.params if p_.name not in ("self", "cls")]
                        used = {x.id for b_, _cs, _mr, _or, _mo, _oo in code_branches(ctx, nf, hn) for x in ast.walk(b_.ast) if isinstance(x, ast.Name)} & set(pn)
                        for c_ in ast.walk(m.node):
                            if isinstance(c_, ast.Call) and (dotted(c_.func) or "").split(".")[-1] == top.name:
                                for up in used:
                                    a_ = c_.args[pn.index(up)] if pn.index(up) < len(c_.args) else next((k.value for k in c_.keywords if k.arg == up), None)
                                    bound |= str_consts(ctx, m, a_)
                    if bound:
                        mapping_ok = any(mr == {"FileNotFoundError"} and "reraise" in orr and "FileNotFoundError" not in orr
                                         for _b, _cs, mr, orr, _mo, _oo in code_branches(ctx, nf, hn))
                        verdicts.append(mapping_ok and code in bound and bound <= NOT_FOUND_CODES)
                        detail = f"codes {sorted(bound)} (bound at the call of {top.name}); raises {raised}"
                    continue  # otherwise: judged where it is analysed in place with the literal
                verdicts.append(good_branch and not ex["fallthrough"] and not ex["return"] and code in codes)
                detail = f"codes {codes}; raises {raised}; swallow={bool(ex['fallthrough'] or ex['return'])}"
        ok = bool(verdicts) and all(verdicts)
        if name == "get_size":
            pass
        ctx.ob("C20.R2", m, f"{name}: {code} -> FileNotFoundError, else re-raise", None, ok, detail, text=name)
    for s3 in family(ctx, s3_base):
        ex_m = s3.methods.get("exists")
        if ex_m is None:
            if s3 is s3_base:
                raise AnalysisError("S3StorageBackend.exists vanished")
            continue
        detail = ""
        vx: List[bool] = []
        for nf in _closure_for(ctx, ex_m) + [ex_m]:
            g = ctx.cfg(nf)
            for hn in handler_nodes(ctx, nf):
                if "ClientError" not in handler_classes(hn.ast):  # type: ignore[arg-type]
                    continue
                exx = handler_exits(ctx, nf, hn)
                brs = [b for b in g.nodes if b.kind == "branch" and in_handler(b, hn.ast) and "404" in str_consts(ctx, nf, b.ast, b.id)]  # type: ignore[arg-type]
                brs += [b_ for b_, cs_, _mr, _or, _mo, _oo in code_branches(ctx, nf, hn) if "404" in cs_ and b_ not in brs]  # table-driven dispatch
                rer = any(r.raised == "reraise" for r in exx["raise"])
                absent = sorted({c for _b, cs, _mr, _or, _mo, _oo in code_branches(ctx, nf, hn) for c in cs} - RESPONSE_KEYS)
                if not brs:
                    # a handler that does not decide absence: it must not swallow
                    vx.append(not (exx["return"] or exx["fallthrough"]))
                    continue
                # the 404 side may answer False by returning; every other code re-raises
                bad_returns = [r for r in exx["return"] if not (isinstance(r.ast.value, ast.Constant) and r.ast.value.value is False)  # type: ignore[union-attr]
                               and not (("inline-return" in r.flags or (nf is not ex_m and nf.parent is None)) and (r.ast.value is None or (isinstance(r.ast.value, ast.Constant)  # type: ignore[union-attr]
                                                                                                  and r.ast.value.value in (None, False))))]  # type: ignore[union-attr]  # (a helper's `return None` = 'absent', handed to the caller's test)
                # which SIDE of the dispatch re-raises: the side that is NOT the not-found code (an inverted test turns a 403 /
                # throttling error into 'absent' and surfaces the 404)
                sides = [(mr, orr) for _b, cs, mr, orr, _mo, _oo in code_branches(ctx, nf, hn) if set(cs) & NOT_FOUND_CODES]
                sides_ok = bool(sides) and all("reraise" in orr and not mr for mr, orr in sides)
                vx.append(rer and not bad_returns and set(absent) <= NOT_FOUND_CODES and sides_ok)
                detail = (f"branch on 404: {bool(brs)}; codes read as 'absent': {absent}; other errors re-raised: {rer}; the re-raise sits "
                          f"on the non-404 side: {sides_ok}" + (f"; the handler also returns {[norm_text(r.ast.value)[:20] if r.ast.value is not None else None for r in bad_returns]}" if bad_returns else ""))  # type: ignore[union-attr]
        okx = bool(vx) and all(vx)
        ctx.ob("C20.R2", ex_m, "exists: 404 -> False, everything else raises", None, okx, detail, text="exists")
        osk = s3.methods.get("open_seekable")
        ok = osk is not None and bool(ctx.calls(osk, name="get_size"))
        if ok:
            # ... and from nothing else: the size handed to the range reader is the object's real length (HEAD), never a number
            # a caller / manifest entry declared (a wrong declared size puts the Parquet footer at the wrong offset)
            og = ctx.cfg(osk)
            for c in [n for n in og.calls() if n.callee is not None and n.callee.kind == "ctor" and n.callee.cls is not None
                      and n.callee.cls.name == "S3RangeFile"]:
                sz = kwarg(c.ast, "size", 3)
                srcs = resolve_value(ctx, osk, sz, c.id) if sz is not None else []
                if not srcs or not all(isinstance(x, ast.Call) and (dotted(x.func) or "").split(".")[-1] == "get_size" for x, _a in srcs):
                    ok = False
        ctx.ob("C20.R2", osk or ex_m, "open_seekable learns the size through get_size (not-found mapping included)", None, ok, "", text="open_seekable")


def _parents(tree: ast.AST) -> Dict[int, ast.AST]:
    out: Dict[int, ast.AST] = {}
    for p_ in ast.walk(tree):
        for c in ast.iter_child_nodes(p_):
            out[id(c)] = p_
    return out


def _is_retry_call(x: ast.AST) -> bool:
    return isinstance(x, ast.Call) and (dotted(x.func) or "").split(".")[-1] == "with_s3_retry"


def _under_retry(ctx: Ctx, f: FunctionInfo, depth: int = 0, seen: Optional[Set[str]] = None) -> bool:
    """Does function f only ever run inside with_s3_retry?  Every USE of f in its module is one of: the operation handed to
    with_s3_retry (directly, wrapped in functools.partial, or called inside a lambda / local function that is); a call from a
    function that itself only runs under retry; an argument bound to a helper's parameter that the helper only invokes under
    retry (`_retried(label, key, request)` -> `with_s3_retry(lambda: request(key), ...)`)."""
    seen = seen if seen is not None else set()
    if f.qname in seen or depth > 6:
        return False
    seen = seen | {f.qname}
    mod = f.module
    par = ctx.__dict__.setdefault("_c20_parents", {}).get(mod.name)
    if par is None:
        par = _parents(mod.tree)
        ctx.__dict__["_c20_parents"][mod.name] = par

    def enclosing_fn(x: ast.AST) -> Optional[ast.AST]:
        q = par.get(id(x))
        while q is not None and not isinstance(q, (ast.FunctionDef, ast.AsyncFunctionDef, ast.Lambda)):
            q = par.get(id(q))
        return q

    def fi_of(node: Optional[ast.AST]) -> Optional[FunctionInfo]:
        return next((x for x in ctx.prog.functions.values() if x.node is node), None) if node is not None else None

    def callable_under_retry(node: ast.AST, d: int) -> bool:
        """the lambda / def `node` only runs under retry"""
        fi = fi_of(node)
        if fi is not None and not isinstance(node, ast.Lambda):
            return _under_retry(ctx, fi, d + 1, seen)
        return value_ok(node, d + 1)

    def value_ok(x: ast.AST, d: int) -> bool:
        """the function VALUE denoted by expression node x ends up only as an operation of with_s3_retry"""
        if d > 8:
            return False
        q = par.get(id(x))
        if isinstance(q, ast.Call) and x in q.args and (dotted(q.func) or "").split(".")[-1] == "partial" and q.args and q.args[0] is x:
            return value_ok(q, d + 1)
        if isinstance(q, ast.keyword):
            q2 = par.get(id(q))
            return isinstance(q2, ast.Call) and bound_param_ok(q2, None, q.arg, d)
        if isinstance(q, ast.Call) and x in q.args:
            if _is_retry_call(q):
                return q.args[0] is x
            return bound_param_ok(q, q.args.index(x), None, d)
        if isinstance(q, ast.Assign) and len(q.targets) == 1 and isinstance(q.targets[0], ast.Name) and q.value is x:
            # op = partial(...); ... with_s3_retry(op, ...): every later load of the local must be fine
            fn_node = enclosing_fn(q)
            loads = [y for y in ast.walk(fn_node) if isinstance(y, ast.Name) and y.id == q.targets[0].id and isinstance(y.ctx, ast.Load)] if fn_node is not None else []
            return bool(loads) and all(value_ok(y, d + 1) for y in loads)
        if isinstance(q, ast.Return):
            # an operation FACTORY: the callable is returned, and what the factory's callers do with the result decides
            enc = enclosing_fn(q)
            fac = fi_of(enc)
            if fac is None or isinstance(enc, ast.Lambda):
                return False
            calls = [c for c in ast.walk(mod.tree) if isinstance(c, ast.Call) and (dotted(c.func) or "").split(".")[-1] == fac.name]
            return bool(calls) and all(value_ok(c, d + 1) for c in calls)
        return False

    def bound_param_ok(call: ast.Call, pos: Optional[int], kw: Optional[str], d: int) -> bool:
        """the argument is bound to a parameter of a package helper that invokes it only under retry"""
        nm = (dotted(call.func) or "").split(".")[-1]
        targets = [t for t in ctx.prog.functions.values() if t.module is mod and t.name == nm and not isinstance(t.node, ast.Lambda)]
        if len(targets) != 1:
            return False
        h = targets[0]
        params = [p_.name for p_ in h.params if p_.name not in ("self", "cls")]
        pname = kw if kw is not None else (params[pos] if pos is not None and pos < len(params) else None)
        if pname is None:
            return False
        uses = [y for y in ast.walk(h.node) if isinstance(y, ast.Name) and y.id == pname and isinstance(y.ctx, ast.Load)]
        if not uses:
            return False
        for y in uses:
            q = par.get(id(y))
            if isinstance(q, ast.Call) and q.func is y:
                # invoked here: the invocation must sit in a callable that only runs under retry, or h itself does
                enc = enclosing_fn(q)
                if enc is h.node:
                    if not _under_retry(ctx, h, d + 1, seen):
                        return False
                elif enc is None or not callable_under_retry(enc, d + 1):
                    return False
            elif not value_ok(y, d + 1):
                return False
        return True

    uses_ok: List[bool] = []
    # (a) references to f as a value / as a callee, anywhere in the module
    for x in ast.walk(mod.tree):
        ref = None
        if f.parent is None and f.cls is not None and isinstance(x, ast.Attribute) and x.attr == f.name and isinstance(x.ctx, ast.Load) \
                and isinstance(x.value, ast.Name) and x.value.id in ("self", "cls", f.cls.name):
            ref = x
        elif isinstance(x, ast.Name) and x.id == f.name and isinstance(x.ctx, ast.Load) and (f.parent is not None or f.cls is None):
            enc = enclosing_fn(x)
            if f.parent is not None and enc is not f.parent.node and fi_of(enc) is not None and fi_of(enc).parent is not f.parent:  # type: ignore[union-attr]
                continue  # another function's local of the same name
            ref = x
        if ref is None:
            continue
        q = par.get(id(ref))
        if isinstance(q, ast.Call) and q.func is ref:
            enc = enclosing_fn(q)
            if enc is f.node:
                continue  # recursion
            uses_ok.append(enc is not None and callable_under_retry(enc, depth + 1))
        else:
            uses_ok.append(value_ok(ref, depth + 1))
    return bool(uses_ok) and all(uses_ok)


def r3(ctx: Ctx) -> None:
    ctx.rule("C20.R3", "retry discipline: every boto call of the backend and the range reader (except the conditional PUT) runs in "
             "a closure passed to with_s3_retry; permanent errors re-raise before any sleep; attempts are bounded", 12)
    for ci in [c2 for cname in ("S3StorageBackend", "S3RangeFile") for c2 in family(ctx, ctx.prog.cls(f"{SB}.{cname}"))]:
        for m in ci.methods.values():
            if ctx.prog.is_transparent(m) and any(m in ctx.cfg(o_).inlined_calls.values() for m2 in ci.methods.values() if m2 is not m
                                                  for o_ in [m2] + list(m2.nested.values())):
                continue  # a helper analysed in place: its request is judged in every scope that calls it
            fns = [m] + list(m.nested.values())
            for f in fns:
                for n in ctx.cfg(f).calls():
                    c = n.callee
                    if c is None or c.kind != "prim" or not c.name.startswith("boto."):
                        continue
                    leaf = c.name.split(".", 1)[1]
                    if leaf in ("get_paginator",):
                        pass
                    if m.name == "write_file_cas":
                        in_loop = any(fr.kind == "loop" for fr in n.frames)
                        ctx.ob("C20.R3", f, "conditional PUT is not retried (by design)", n, f is m and not m.nested and not in_loop,
                               "a retried conditional PUT could conflict with its own first attempt"
                               + (" (the PUT sits in a hand-written retry loop)" if in_loop else ""), nontrivial=False)
                        continue
                    if m.name == "__init__":
                        continue
                    ctx.ob("C20.R3", f, f"boto {leaf} runs under with_s3_retry", n, _under_retry(ctx, f),
                           "a transient error on this request is masked within the retry budget (#39/#50)")
    rb = ctx.fn("s3_consistency.S3ConsistencyHandler.retry_with_backoff")
    g = ctx.cfg(rb)
    hs = [hn for hn in handler_nodes(ctx, rb) if "retryable_exceptions" in norm_text(hn.ast.type) if hn.ast.type is not None]  # type: ignore[union-attr]
    if not hs:
        raise AnalysisError("retryable handler vanished from retry_with_backoff")
    hn = hs[0]
    from .common import explore
    # the loop's behaviour, decided by simulating the function on "the operation keeps failing with a transient error" for
    # max_retries = 1 and 2 (for/range, while with a counter, 0- or 1-based, helpers analysed in place - all read the same way):
    # failure k <= max_retries sleeps and reaches the operation again, failure max_retries + 1 re-raises
    params = {p_.name for p_ in rb.params}
    ops = [n for n in g.calls() if isinstance(n.ast, ast.Call) and isinstance(n.ast.func, ast.Name) and n.ast.func.id in params
           and n.id in g.reachable() and any(d == hn.id for d, l in g.succ[n.id] if l not in NORMAL)]
    if not ops:
        ops = [n for n in g.calls() if isinstance(n.ast, ast.Call) and isinstance(n.ast.func, ast.Name) and n.ast.func.id in params
               and n.id in g.reachable()]
    sleeps = [n for n in g.calls() if n.callee is not None and n.callee.kind == "prim" and n.callee.name == "time.sleep" and n.id in g.reachable()]
    perm_calls = [n for n in g.calls() if isinstance(n.ast, ast.Call) and (dotted(n.ast.func) or "").split(".")[-1] == "is_permanent_s3_error"]
    if not ops:
        raise AnalysisError("retry_with_backoff: the call of the operation parameter was not found")
    op_ids = {n.id for n in ops}
    starts = [d for d, l in g.succ[hn.id] if l in NORMAL]
    stops = [n.id for n in g.nodes if n.kind in ("raise", "return")] + sorted(op_ids) + [g.exit]
    max_names = sorted({nm for nm in names_in(rb.node) if nm.endswith("max_retries")}) or ["self.max_retries"]

    def kind_of(nid: int) -> str:
        n_ = g.nodes[nid]
        if nid in op_ids:
            return "operation"
        return "raise:" + str(n_.raised) if n_.kind == "raise" else n_.kind

    def fail(stores: List[Dict[object, object]], env: Dict[str, object], permanent: bool) -> Tuple[Set[str], bool, List[Dict[object, object]]]:
        ends: Set[str] = set()
        slept_all = True
        nxt: List[Dict[object, object]] = []
        for st in stores:
            st0 = {k: v for k, v in st.items() if not (isinstance(k, tuple) and k[0] == "seen")}
            for nid, store, _asm in explore(ctx, rb, starts, env, assume={id(c.ast): permanent for c in perm_calls}, stop=stops,
                                            watch=[s_.id for s_ in sleeps], init=st0, iterate=True):
                k_ = kind_of(nid)
                if any(isinstance(k, tuple) and k[0] == "undecided" for k in store):
                    k_ += "?"
                ends.add(k_)
                slept = any(isinstance(k, tuple) and k[0] == "seen" for k in store)
                if k_ == "operation":
                    slept_all = slept_all and slept
                    nxt.append(store)
                elif slept and permanent:
                    slept_all = True
        return ends, slept_all, nxt

    def simulate(max_r: int) -> Tuple[List[Tuple[Set[str], bool]], Tuple[Set[str], bool]]:
        env: Dict[str, object] = {nm: max_r for nm in max_names}
        first = [store for nid, store, _a in explore(ctx, rb, [g.entry], env, stop=stops, iterate=True) if nid in op_ids]
        if not first:
            raise AnalysisError("retry_with_backoff: no path from the entry to the operation call")
        e_p, s_p, _ = fail(first, env, True) if perm_calls else ({"no is_permanent_s3_error test"}, True, [])
        if perm_calls:
            s_p = any(isinstance(k, tuple) and k[0] == "seen" for st in first for _n, store, _a2 in
                      explore(ctx, rb, starts, env, assume={id(c.ast): True for c in perm_calls}, stop=stops,
                              watch=[s_.id for s_ in sleeps], init=st, iterate=True) for k in store)
        rounds: List[Tuple[Set[str], bool]] = []
        cur = first
        for _k in range(max_r + 3):
            if not cur:
                break
            ends, slept, cur = fail(cur, env, False)
            rounds.append((ends, slept))
        return rounds, (e_p, s_p)

    sims = {mr: simulate(mr) for mr in (1, 2)}
    e_p, s_p = sims[1][1]
    ctx.ob("C20.R3", rb, "permanent errors re-raise before any sleep", perm_calls[0] if perm_calls else hn, e_p == {"raise:reraise"} and not s_p,
           f"scenario 'permanent error on the first attempt': the handler ends in {sorted(e_p)}, slept: {s_p} - credentials / "
           "permissions / missing bucket surface immediately")
    ok_t = all(r_[k] == ({"operation"}, True) for mr, (r_, _p) in sims.items() for k in range(min(mr, len(r_)))) \
        and all(len(r_) > mr - 1 for mr, (r_, _p) in sims.items())
    ctx.ob("C20.R3", rb, "a transient error with budget left sleeps and tries again", sleeps[0] if sleeps else hn, ok_t,
           "scenario 'every attempt fails with a transient error': failures 1..max_retries end in "
           + "; ".join(f"max_retries={mr}: {[(sorted(e_), s_) for e_, s_ in r_[:mr]]}" for mr, (r_, _p) in sims.items())
           + " - each must sleep and reach the operation again (the whole budget is used, #39/#50)")
    ok_b = all(len(r_) > mr and "operation" not in r_[mr][0] and "operation?" not in r_[mr][0] for mr, (r_, _p) in sims.items())
    ctx.ob("C20.R3", rb, "attempts are bounded by max_retries", ops[0], ok_b,
           "failure max_retries + 1 does not reach the operation again: "
           + "; ".join(f"max_retries={mr}: {sorted(r_[mr][0]) if len(r_) > mr else 'never reached'}" for mr, (r_, _p) in sims.items()))
    ok_x = all(len(r_) > mr and r_[mr][0] == {"raise:reraise"} for mr, (r_, _p) in sims.items())
    ctx.ob("C20.R3", rb, "the last failure is re-raised, never swallowed", hn, ok_x,
           "scenario 'transient error, budget exhausted': "
           + "; ".join(f"max_retries={mr}: {sorted(r_[mr][0]) if len(r_) > mr else 'never reached'}" for mr, (r_, _p) in sims.items())
           + " - retry budget exhausted -> raise")
    # the retry layer is transparent to results: what comes back is what the operation returned
    from .common import effective_returns
    rets_rb = [n for n in g.nodes if n.kind == "return" and n.id in g.reachable()]
    bad_r = []
    for r_ in rets_rb:
        v_ = r_.ast.value if r_.ast is not None else None  # type: ignore[union-attr]
        srcs = resolve_value(ctx, rb, v_, r_.id) if v_ is not None else []
        if not srcs or not all(isinstance(x, ast.Call) and id(x) in {id(o.ast) for o in ops} for x, _a in srcs):
            bad_r.append(r_)
    ctx.ob("C20.R3", rb, "retry_with_backoff returns the operation's result", bad_r[0] if bad_r else (rets_rb[0] if rets_rb else None),
           bool(rets_rb) and not bad_r, "every `return` hands back the value of `operation()`" if rets_rb and not bad_r else
           "a successful attempt's result is dropped / replaced: every read through the S3 backend answers with it")
    ws = ctx.fn("s3_consistency.with_s3_retry")
    wr = effective_returns(ctx, ws)
    ok_w = bool(wr) and all(isinstance(v_, ast.Call) and (dotted(v_.func) or "").split(".")[-1] == "retry_with_backoff" for _n, v_ in wr)
    ctx.ob("C20.R3", ws, "with_s3_retry returns what the retry loop returned", wr[0][0] if wr else None, ok_w,
           "return default_handler.retry_with_backoff(operation, ...)" if ok_w else
           "the wrapper drops the operation's result: read_file / get_size / list_files answer None")
    others = [h for h in handler_nodes(ctx, rb) if h is not hn]
    ok = all(not (handler_exits(ctx, rb, h)["fallthrough"] or handler_exits(ctx, rb, h)["return"] or handler_exits(ctx, rb, h)["loop"]) for h in others)
    ctx.ob("C20.R3", rb, "non-retryable classes propagate", others[0] if others else None, ok, "except Exception: raise")
    ip = ctx.fn("s3_consistency.is_permanent_s3_error")
    m = ctx.prog.modules["datashard.s3_consistency"]
    codes = m.consts.get("PERMANENT_S3_ERROR_CODES")
    vals = [c.value for c in ast.walk(codes) if isinstance(c, ast.Constant)] if codes is not None else []
    rets = [n for n in ctx.cfg(ip).nodes if n.kind == "return" and n.id in ctx.cfg(ip).reachable()]
    okr = bool(rets)

    def _not_member(x: ast.AST) -> Optional[bool]:
        # scenario: the error's code is NOT in the table
        if isinstance(x, ast.Compare) and len(x.ops) == 1 and isinstance(x.ops[0], (ast.In, ast.NotIn)) \
                and "PERMANENT_S3_ERROR_CODES" in norm_text(x.comparators[0]):
            return isinstance(x.ops[0], ast.NotIn)
        return None

    from .common import eval3
    for r_ in rets:
        for v, _at in resolve_value(ctx, ip, r_.ast.value, r_.id):  # type: ignore[union-attr]
            if isinstance(v, ast.Constant) and v.value is False:
                continue
            # whatever else the expression tests, a code outside the table makes it False
            if v is not None and eval3(v, _not_member) is False:
                continue
            okr = False
    scen = _classifier_scenarios(ctx, ip)
    if scen is not None:
        # decided by scenario (nothing is run): the classifier is walked with scripted error responses; what the structural
        # reading above could not follow (a second signal next to the code table, a helper) is judged by its answers
        wrong = [(c_, st_, want, got) for c_, st_, want, got in scen if want is not None and got != want]
        ctx.ob("C20.R3", ip, "an error is permanent only by membership in PERMANENT_S3_ERROR_CODES", rets[-1] if rets else None, not wrong,
               f"scenario walk over {len(scen)} scripted error responses (code, HTTP status): throttling, timeouts, aborted operations, "
               "5xx and 404 stay retryable, credential / permission / bucket errors are permanent" + (
                   f" - but code {wrong[0][0]!r} with status {wrong[0][1]} is classified {'permanent' if wrong[0][3] else 'retryable'}: "
                   + ("a transient fault surfaces after one attempt instead of being masked within the retry budget (#39/#50)" if wrong[0][3]
                      else "a permanent error burns the whole retry budget") if wrong else ""))
    else:
        ctx.ob("C20.R3", ip, "an error is permanent only by membership in PERMANENT_S3_ERROR_CODES", rets[-1] if rets else None, okr,
               "any broader classification (e.g. 'every 4xx') makes transient faults such as RequestTimeout/400, OperationAborted/409 or "
               "429 throttling surface after one attempt instead of being masked within the retry budget")
    ctx.ob("C20.R3", ip, "404 / NoSuchKey are not permanent (a just-written object may read as missing)", None,
           bool(vals) and "404" not in vals and "NoSuchKey" not in vals and "AccessDenied" in vals, f"{len(vals)} permanent codes", nontrivial=False)


CLASSIFIER_SCENARIOS: List[Tuple[str, Optional[int], Optional[bool]]] = [
    # (error code, HTTP status or None when the response carries none, permanent? - None = either answer is acceptable)
    ("RequestTimeout", 400, False), ("RequestTimeout", None, False), ("OperationAborted", 409, False), ("SlowDown", 503, False),
    ("TooManyRequests", 429, False), ("Throttling", 400, False), ("InternalError", 500, False), ("ServiceUnavailable", 503, False),
    ("NoSuchKey", 404, False), ("404", 404, False), ("404", None, False), ("", None, False), ("", 500, False), ("BadDigest", 400, False),
    ("PreconditionFailed", 412, False), ("ConditionalRequestConflict", 409, False), ("RequestTimeTooSkewed", 403, None),
    ("AccessDenied", 403, True), ("AccessDenied", None, True), ("InvalidAccessKeyId", 403, True), ("SignatureDoesNotMatch", 403, True),
    ("NoSuchBucket", 404, True), ("NoSuchBucket", None, True), ("403", 403, True), ("401", None, True), ("Forbidden", 403, None),
    ("Unauthorized", 401, None)]


def _classifier_scenarios(ctx: Ctx, ip: FunctionInfo) -> Optional[List[Tuple[str, Optional[int], Optional[bool], object]]]:
    """[(code, status, expected, answer)] of is_permanent_s3_error under scripted botocore-style responses, or None when the
    evaluator cannot follow the function (the structural rule decides then)."""
    from .common import concrete_eval, explore, UNKNOWN
    g = ctx.cfg(ip)
    pn = next((p.name for p in ip.params if p.name not in ("self", "cls")), None)
    if pn is None:
        return None
    rets = [n.id for n in g.nodes if n.kind == "return"]
    out: List[Tuple[str, Optional[int], Optional[bool], object]] = []
    for code, status, want in CLASSIFIER_SCENARIOS:
        resp: Dict[str, object] = {"Error": {"Code": code, "Message": "scripted"}}
        if status is not None:
            resp["ResponseMetadata"] = {"HTTPStatusCode": status}
        env: Dict[str, object] = {pn + ".response": resp, pn + ".*": True}
        vals = set()
        try:
            for nid, store, _asm in explore(ctx, ip, [g.entry], env, stop=rets):
                n_ = g.nodes[nid]
                if n_.kind != "return" or any(isinstance(k, tuple) and k[0] == "undecided" for k in store):
                    return None
                sc = dict(env)
                sc.update({k: v for k, v in store.items() if isinstance(k, (str, tuple))})
                v_ = concrete_eval(ctx, ip, n_.ast.value, sc, nid) if n_.ast is not None and n_.ast.value is not None else None  # type: ignore[union-attr]
                if v_ is UNKNOWN:
                    return None
                vals.add(bool(v_))
        except Exception:
            return None
        if len(vals) != 1:
            return None
        out.append((code, status, want, next(iter(vals))))
    return out


def r14_retried_ops_restartable(ctx: Ctx, rid: str = "C20.R14") -> None:
    ctx.rule(rid, "a retried operation starts from scratch: the function handed to with_s3_retry (closure, lambda, partial) does not "
             "mutate anything it captured from the enclosing scope - no append / extend / update / item store on a captured "
             "variable, no `nonlocal` rebinding - so an attempt that failed half-way leaves nothing behind for the next one (a "
             "listing accumulator that survives a retry duplicates or skips entries)", 1)
    from .common import MUTATORS
    n_ops = 0
    for mod in ctx.prog.modules.values():
        for top in [f for f in ctx.prog.functions.values() if f.module is mod and not isinstance(f.node, ast.Lambda)]:
            for call in [x for x in ast.walk(top.node) if _is_retry_call(x)]:
                if not call.args:  # type: ignore[attr-defined]
                    continue
                # only the calls that belong to `top` itself (not to a function nested inside it)
                if any(call in list(ast.walk(nf.node)) for nf in top.nested.values()):
                    continue
                op = call.args[0]  # type: ignore[attr-defined]
                if isinstance(op, ast.Call) and (dotted(op.func) or "").split(".")[-1] == "partial" and op.args:
                    op = op.args[0]
                for fv in ctx.eff.function_values(op, top):
                    n_ops += 1
                    if fv.parent is None and not isinstance(fv.node, ast.Lambda):
                        ctx.ob(rid, fv, "the retried operation mutates nothing it captured", None, True,
                               "a method / module-level function captures nothing", text=f"{top.name}:{fv.name}")
                        continue
                    body = fv.node
                    own = {a.arg for a in ast.walk(body.args) if isinstance(a, ast.arg)} if hasattr(body, "args") else set()  # type: ignore[attr-defined]
                    assigned = set()
                    nonlocals = set()
                    for x in ast.walk(body):
                        if isinstance(x, ast.Name) and isinstance(x.ctx, ast.Store):
                            assigned.add(x.id)
                        if isinstance(x, (ast.Nonlocal, ast.Global)):
                            nonlocals |= set(x.names)
                    local = (own | assigned) - nonlocals
                    bad = []
                    # a captured container EMPTIED at the top of the operation, before anything else touches it (`del acc[:]`,
                    # `acc.clear()`, `acc[:] = []`), starts every attempt from scratch all the same ...
                    reset: Set[str] = set()
                    touched: Set[str] = set()
                    for st in (body.body if isinstance(getattr(body, "body", None), list) else []):
                        nm_ = None
                        if isinstance(st, ast.Delete) and len(st.targets) == 1 and isinstance(st.targets[0], ast.Subscript) \
                                and isinstance(st.targets[0].value, ast.Name) and isinstance(st.targets[0].slice, ast.Slice) \
                                and st.targets[0].slice.lower is None and st.targets[0].slice.upper is None and st.targets[0].slice.step is None:
                            nm_ = st.targets[0].value.id
                        elif isinstance(st, ast.Expr) and isinstance(st.value, ast.Call) and isinstance(st.value.func, ast.Attribute) \
                                and st.value.func.attr == "clear" and isinstance(st.value.func.value, ast.Name) and not st.value.args:
                            nm_ = st.value.func.value.id
                        elif isinstance(st, ast.Assign) and len(st.targets) == 1 and isinstance(st.targets[0], ast.Subscript) \
                                and isinstance(st.targets[0].value, ast.Name) and isinstance(st.targets[0].slice, ast.Slice) \
                                and st.targets[0].slice.lower is None and st.targets[0].slice.upper is None \
                                and isinstance(st.value, (ast.List, ast.Tuple)) and not st.value.elts:
                            nm_ = st.targets[0].value.id
                        if nm_ is not None and nm_ not in touched:
                            reset.add(nm_)
                        touched |= {y.id for y in ast.walk(st) if isinstance(y, ast.Name)}
                    # ... and a captured COUNTER that is only ever incremented (never read by the operation) cannot shape its result
                    reads: Dict[str, int] = {}
                    for x in ast.walk(body):
                        if isinstance(x, ast.Name) and isinstance(x.ctx, ast.Load):
                            reads[x.id] = reads.get(x.id, 0) + 1
                    for x in ast.walk(body):
                        if isinstance(x, ast.Call) and isinstance(x.func, ast.Attribute) and x.func.attr in MUTATORS \
                                and isinstance(x.func.value, ast.Name) and x.func.value.id not in local and x.func.value.id not in reset:
                            bad.append(f"{x.func.value.id}.{x.func.attr}(...) at line {x.lineno}")
                        if isinstance(x, (ast.Assign, ast.AugAssign)):
                            for t in (x.targets if isinstance(x, ast.Assign) else [x.target]):
                                if isinstance(t, ast.Subscript) and isinstance(t.value, ast.Name) and t.value.id not in local \
                                        and t.value.id not in reset:
                                    bad.append(f"{t.value.id}[...] = ... at line {x.lineno}")
                                if isinstance(t, ast.Name) and t.id in nonlocals:
                                    if isinstance(x, ast.AugAssign) and isinstance(x.op, ast.Add) and not reads.get(t.id) \
                                            and not (names_in(x.value) & (nonlocals | {t.id})):
                                        continue  # write-only bookkeeping (pages / requests seen so far)
                                    bad.append(f"nonlocal {t.id} rebound at line {x.lineno}")
                    ctx.ob(rid, fv if not isinstance(fv.node, ast.Lambda) else top, "the retried operation mutates nothing it captured", None, not bad,
                           "every attempt builds its own result" if not bad else
                           f"state survives a failed attempt: {bad[0]} - the next attempt continues from a half-finished result",
                           text=f"{top.name}:{getattr(fv, 'name', 'lambda')}")
    if n_ops == 0:
        raise AnalysisError("no closure handed to with_s3_retry found")


def r15_answers(ctx: Ctx, rid: str = "C20.R15") -> None:
    ctx.rule(rid, "an S3 operation answers with what the store said: exists() returns True exactly on the normal completion of the "
             "HEAD; every read-type operation returns a value computed from its request's response (through the retry wrapper); "
             "S3RangeFile.seek computes offset / pos + offset / size + offset for SEEK_SET / SEEK_CUR / SEEK_END and returns the "
             "new position (scenario evaluation, nothing is run)", 8)
    from .common import concrete_eval, UNKNOWN
    s3 = ctx.prog.cls(SB + ".S3StorageBackend")
    ex = s3.methods.get("exists")
    if ex is None:
        raise AnalysisError("S3StorageBackend.exists vanished")
    n_head = 0
    scopes_ = op_scopes(ctx, ex)
    for nf in scopes_:
        if nf.parent is None and nf is not ex and ctx.prog.is_transparent(nf) and any(
                nf in ctx.cfg(o_).inlined_calls.values() for o_ in scopes_ if o_ is not nf):
            continue  # a helper analysed in place: judged inside the scope that calls it
        g = ctx.cfg(nf)
        boto = [c for c in g.calls() if c.callee is not None and c.callee.kind == "prim" and c.callee.name.startswith("boto.") and c.id in g.reachable()]
        # a boto response is a dict, never None: `response is not None` after a request that completed has one feasible side
        dead = set()
        for b in g.nodes:
            if b.kind == "branch" and isinstance(b.ast, ast.Compare) and len(b.ast.ops) == 1 and isinstance(b.ast.ops[0], (ast.Is, ast.IsNot)) \
                    and isinstance(b.ast.left, ast.Name) and isinstance(b.ast.comparators[0], ast.Constant) and b.ast.comparators[0].value is None:
                ds = ctx.rd(nf).reaching(b.id, b.ast.left.id)
                if ds and all(d_ != g.entry and isinstance(g.nodes[d_].ast, ast.Assign) and any(c.ast is g.nodes[d_].ast.value for c in boto) for d_ in ds):
                    lab = "true" if isinstance(b.ast.ops[0], ast.Is) else "false"
                    dead |= {(b.id, d_) for d_, l_ in g.succ[b.id] if l_ == lab}
        for h in [c for c in boto if c.callee.name == "boto.head_object"]:
            n_head += 1
            others = [c.id for c in boto if c is not h]
            rets = set()
            seen_ = set()
            work_ = [d for d, l in g.succ[h.id] if l in NORMAL]
            while work_:
                x = work_.pop()
                if x in seen_ or x in others:
                    continue
                seen_.add(x)
                if g.nodes[x].kind == "return":
                    rets.add(x)
                work_ += [d for d, l in g.succ[x] if l in NORMAL and (x, d) not in dead]
            # the first answers after a successful HEAD (returns not separated from it by a branch on something else)
            dom = ctx.dom(nf, NORMAL)
            direct = [g.nodes[x] for x in rets if h.id in dom[x]]
            if dead:
                # (dominators do not know the infeasible side: take the returns reached first, i.e. not through another return)
                direct = [g.nodes[x] for x in rets]
            vals = [r.ast.value for r in direct if r.ast is not None]  # type: ignore[union-attr]
            ok = bool(vals) and all(isinstance(v, ast.Constant) and v.value is True for v in vals)
            ctx.ob(rid, nf, "exists(): a successful HEAD answers True", h, ok,
                   f"answers after the HEAD completed normally: {[norm_text(v) for v in vals]}" + ("" if ok else " - an object that "
                   "exists is reported missing: validation rejects live files, the collector takes live manifests for gone"))
    if n_head == 0:
        raise AnalysisError("exists() no longer issues a HEAD")
    # read-type operations: the value handed back derives from the response of the operation's own request
    for name in ("read_file", "get_size", "get_modified_time", "read_file_with_etag", "open_file"):
        m = s3.methods.get(name)
        if m is None:
            raise AnalysisError(f"S3StorageBackend.{name} vanished")
        scopes = op_scopes(ctx, m)
        judged = 0
        for nf in scopes:
            g = ctx.cfg(nf)
            sl = ctx.slicer(nf)
            srcs = [c for c in g.calls() if c.id in g.reachable() and isinstance(c.ast, ast.Call) and (
                (c.callee is not None and c.callee.kind == "prim" and c.callee.name.startswith("boto."))
                or _is_retry_call(c.ast) or any(t in scopes and t is not nf for t in ctx.eff.callees(nf, c)))]
            if not srcs:
                continue
            src_ids = {id(c.ast) for c in srcs}
            for r in [x for x in g.nodes if x.kind == "return" and x.id in g.reachable()]:
                v = r.ast.value if r.ast is not None else None  # type: ignore[union-attr]
                if v is None:
                    ok = False
                else:
                    parts = list(v.elts) if isinstance(v, ast.Tuple) else [v]
                    ok = all(any(id(c) in src_ids for c in sl.origins(p_, r.id)["calls"] | ({p_} if isinstance(p_, ast.Call) else set())) for p_ in parts)
                judged += 1
                ctx.ob(rid, nf, f"{name}: the result derives from the response", r, ok,
                       "computed from the request's response" if ok else
                       f"`{r.text[:60]}` does not depend on what the store answered", text=f"{name}")
        if judged == 0:
            raise AnalysisError(f"S3StorageBackend.{name}: no return found next to its request")
    # seek dispatch, by scenario
    rf = ctx.prog.cls(SB + ".S3RangeFile")
    sk = rf.methods.get("seek")
    if sk is None:
        raise AnalysisError("S3RangeFile.seek vanished")
    g = ctx.cfg(sk)
    from .common import explore
    params = [p.name for p in sk.params if p.name != "self"]
    if len(params) < 2:
        raise AnalysisError("S3RangeFile.seek lost its (offset, whence) parameters")
    off, wh = params[0], params[1]
    stores = [n for n in g.nodes if n.kind == "stmt" and isinstance(n.ast, ast.Assign) and norm_text(n.ast.targets[0]) == "self._pos" and n.id in g.reachable()]
    import io as _io
    for label, wv, want in (("SEEK_SET", _io.SEEK_SET, 7), ("SEEK_CUR", _io.SEEK_CUR, 107), ("SEEK_END", _io.SEEK_END, 1007)):
        env = {off: 7, wh: wv, "io.SEEK_SET": 0, "io.SEEK_CUR": 1, "io.SEEK_END": 2, "os.SEEK_SET": 0, "os.SEEK_CUR": 1, "os.SEEK_END": 2,
               "self._pos": 100, "self._size": 1000}
        got = set()
        for nid, store, _asm in explore(ctx, sk, [g.entry], env, stop=[s_.id for s_ in stores] + [n.id for n in g.nodes if n.kind in ("raise",)]):
            n_ = g.nodes[nid]
            if n_ in stores:
                scen = dict(env)
                scen.update({k: v for k, v in store.items() if isinstance(k, str)})
                got.add(concrete_eval(ctx, sk, n_.ast.value, scen, nid))  # type: ignore[union-attr]
            elif n_.kind == "raise":
                got.add("raise")
        ints = {x for x in got if isinstance(x, int) and not isinstance(x, bool)}
        undecided = any(not isinstance(x, int) and x != "raise" for x in got)
        # a dispatch the evaluator cannot follow (a table of lambdas) is not judged; a decided wrong position is a violation
        ok_s = ints <= {want} and (bool(ints) or undecided)
        ctx.ob(rid, sk, f"seek({label}) stores the right position", stores[0] if stores else None, ok_s,
               f"offset 7, pos 100, size 1000, whence {label}: new position {sorted(map(repr, got))} (expected {want})"
               + (" - dispatch not evaluable, not judged" if undecided and not ints else ""), text=label, nontrivial=bool(ints))
    rets = [r for r in g.nodes if r.kind == "return" and r.id in g.reachable()]
    ok_r = bool(rets) and all(r.ast is not None and r.ast.value is not None and (
        norm_text(r.ast.value) == "self._pos" or any(norm_text(r.ast.value) == norm_text(s_.ast.value) for s_ in stores)) for r in rets)  # type: ignore[union-attr]
    ctx.ob(rid, sk, "seek returns the new position", rets[0] if rets else None, ok_r, "io.RawIOBase.seek contract (BufferedReader relies on it)")


def r7(ctx: Ctx, rid: str = "C20.R7") -> None:
    ctx.rule(rid, "backends are stateless: no method other than __init__ stores to an instance attribute (no size / path / listing "
             "cache that a write through another method - or another process - can leave stale)", 2)
    for ci in [c2 for cn in ("LocalStorageBackend", "S3StorageBackend") for c2 in family(ctx, ctx.prog.cls(f"{SB}.{cn}"))]:
        cname = ci.name
        if not ci.methods:
            continue  # a flavour that only combines its bases
        bad = []
        from .common import state_writes
        for m in ci.methods.values():
            if m.name == "__init__":
                continue
            for n, what in state_writes(ctx, m):
                bad.append(f"{m.file}:{n.lineno} {what} in `{n.text[:60]}`")
        ctx.ob(rid, ci.methods.get("__init__") or next(iter(ci.methods.values())), f"{cname} keeps no mutable per-instance state", None, not bad,
               "results always reflect the store (the other backend has no cache either)", witness=bad[:6] or None, text=cname)


def r4(ctx: Ctx) -> None:
    ctx.rule("C20.R4", "exists() falls back to a prefix listing only for keys ending in '/'", 1)
    impls = [c.methods["exists"] for c in family(ctx, ctx.prog.cls(SB + ".S3StorageBackend")) if "exists" in c.methods]
    for nf in [x for ex in impls for x in ([ex] + list(ex.nested.values()))]:
        g = ctx.cfg(nf)
        ls = ctx.calls(nf, prim="boto.list_objects_v2")
        brs = [b for b in g.nodes if b.kind == "branch" and "endswith('/')" in b.text]
        for l in ls:
            ok = False
            for b in brs:
                t, fl = edge_target(g, b, "true"), edge_target(g, b, "false")
                # cond(Not(x)) swaps edges: branch test text is `key.endswith('/')`
                if t is not None and l.id in reachable_from(g, t, NORMAL) and (fl is None or l.id not in reachable_from(g, fl, NORMAL)):
                    ok = True
            if not ok:
                # ... or short-circuit: `key.endswith('/') and <listing>` (the listing possibly inside a helper analysed in place)
                mine = [l.ast] + [fr.node for fr in l.frames if fr.kind == "inline"]
                for bo in [x for x in ast.walk(nf.node) if isinstance(x, ast.BoolOp) and isinstance(x.op, ast.And)]:
                    for i, opnd in enumerate(bo.values):
                        if i > 0 and any(any(y is c for y in ast.walk(opnd)) for c in mine) and any(
                                isinstance(e, ast.Call) and isinstance(e.func, ast.Attribute) and e.func.attr == "endswith"
                                and e.args and isinstance(e.args[0], ast.Constant) and e.args[0].value == "/" for e in bo.values[:i]):
                            ok = True
            ctx.ob("C20.R4", nf, "prefix listing only for directory-like keys", l, ok,
                   "existence of exact keys only: 'data/x.parquet' is not 'present' because objects exist under that name")
        if not ls:
            ctx.ob("C20.R4", nf, "no prefix fallback at all", None, True, "exists() is an exact head_object", nontrivial=False)


def r5(ctx: Ctx, rid: str = "C20.R5") -> None:
    ctx.rule(rid, "listing confinement: the prefix given to list_objects_v2 ends at a directory boundary on every path", 1)
    lf = ctx.prog.cls(SB + ".S3StorageBackend").methods["list_files"]
    g = ctx.cfg(lf)
    uses = []
    scopes = [x for x in op_scopes(ctx, lf) if x is not lf] + [lf]
    for nf in scopes:
        for n in ctx.cfg(nf).calls():
            pk = kwarg(n.ast, "Prefix")
            if pk is not None:
                uses.append((nf, n, pk))
    if not uses:
        any_list = next(((nf, c) for nf in scopes for c in ctx.cfg(nf).calls()
                         if c.callee and (c.callee.name.startswith("boto.list_objects") or c.callee.name.split(".")[-1] == "paginate")), None)
        if any_list is None and any(isinstance(x, ast.Call) and isinstance(x.func, ast.Attribute) and x.func.attr in ("list_objects_v2", "list_objects", "paginate")
                                    for x in ast.walk(lf.node)):
            # the request sits in a lambda / generator nested deeper (a per-page retry): anchor the obligation at the method
            first = next(iter(ctx.cfg(lf).calls()), None)
            any_list = (lf, first) if first is not None else None
        for d in [x for x in ast.walk(lf.node) if isinstance(x, ast.Dict)]:
            for k, v in zip(d.keys, d.values):
                if isinstance(k, ast.Constant) and k.value == "Prefix" and any_list is not None:
                    uses.append((lf, any_list[1], v))
    if not uses:
        raise AnalysisError("no Prefix= found in S3 list_files")
    # listing completeness: pages are walked with the SDK paginator, or by following NextContinuationToken
    direct = [(nf, n) for nf in scopes for n in ctx.cfg(nf).calls() if n.callee and n.callee.name in ("boto.list_objects_v2", "boto.list_objects")]
    pag = [(nf, n) for nf in scopes for n in ctx.cfg(nf).calls() if n.callee and n.callee.name.endswith(".paginate")]
    if direct:
        consts = {c.value for nf, _n in direct for c in ast.walk(nf.node) if isinstance(c, ast.Constant) and isinstance(c.value, str)}
        okp = "NextContinuationToken" in consts
        ctx.ob(rid, lf, "a hand-written page loop follows NextContinuationToken", direct[0][1], okp,
               "list_objects_v2 returns at most 1000 keys per call; the token of the NEXT page is `NextContinuationToken` "
               "(`ContinuationToken` merely echoes the request): without it every listing is silently cut at 1000 keys - markers, "
               "manifests or metadata versions on later pages disappear from GC protection, reachability and recovery")
    else:
        ctx.ob(rid, lf, "pages are walked with the SDK paginator", pag[0][1] if pag else None, bool(pag),
               "get_paginator('list_objects_v2').paginate(...) returns every page")
    for nf, n, pk in uses:
        var = pk.id if isinstance(pk, ast.Name) else None
        ok = False
        detail = f"Prefix={norm_text(pk)}"
        if isinstance(pk, ast.BinOp) and isinstance(pk.op, ast.Add) and isinstance(pk.right, ast.Constant) and str(pk.right.value).endswith("/"):
            ok = True
        elif isinstance(pk, ast.JoinedStr) and pk.values and isinstance(pk.values[-1], ast.Constant) and str(pk.values[-1].value).endswith("/"):
            ok = True
        elif var is not None:
            # in the enclosing function: every path to the closure definition either appends '/', or passes the
            # already-terminated / empty-prefix edge of a test on the variable
            defn = [x for x in g.nodes if x.kind == "stmt" and isinstance(x.ast, ast.FunctionDef) and x.ast.name == nf.name]
            if nf.parent is not lf and nf is not lf and var in [p_.name for p_ in nf.params]:
                # a helper introduced later receives the prefix as a parameter: follow it to the argument list_files passes
                pn = [p_.name for p_ in nf.params if p_.name not in ("self", "cls")]
                site = None
                for hostf in [lf] + list(lf.nested.values()):
                    for c_ in ast.walk(hostf.node):
                        if isinstance(c_, ast.Call) and (dotted(c_.func) or "").split(".")[-1] == nf.name:
                            a_ = c_.args[pn.index(var)] if pn.index(var) < len(c_.args) else next((k.value for k in c_.keywords if k.arg == var), None)
                            if isinstance(a_, ast.Name):
                                site = (hostf, c_, a_.id)
                if site is not None:
                    hostf, c_, var = site
                    if hostf is lf:
                        defn = [x for x in g.nodes if x.ast is not None and x.kind in ("stmt", "call", "return") and any(y is c_ for y in ast.walk(x.ast))][:1]
                    else:
                        defn = [x for x in g.nodes if x.kind == "stmt" and isinstance(x.ast, ast.FunctionDef) and x.ast.name == hostf.name]
            aug = [x for x in g.nodes if x.kind == "stmt" and (
                (isinstance(x.ast, ast.AugAssign) and isinstance(x.ast.target, ast.Name) and x.ast.target.id == var
                 and isinstance(x.ast.value, ast.Constant) and x.ast.value.value == "/")
                or (isinstance(x.ast, ast.Assign) and any(isinstance(t, ast.Name) and t.id == var for t in x.ast.targets)
                    and (norm_text(x.ast.value).endswith("+ '/'") or norm_text(x.ast.value).endswith("/'") and "rstrip" in norm_text(x.ast.value))))]
            ok_edges = set()
            for b in g.nodes:
                if b.kind != "branch" or b.ast is None or var not in names_in(b.ast):
                    continue
                if "endswith('/')" in b.text:
                    # cond() already resolved `not`: 'true' edge = ends with slash
                    for d, l in g.succ[b.id]:
                        if l == "true":
                            ok_edges.add((b.id, d))
                elif norm_text(b.ast) == var:
                    for d, l in g.succ[b.id]:
                        if l == "false":
                            ok_edges.add((b.id, d))  # empty prefix: the whole table root
            w = find_path(g, g.entry, [defn[0].id] if defn else [g.exit], avoid=[a.id for a in aug], labels=NORMAL,
                          edge_ok=lambda s, d, l: (s, d) not in ok_edges)
            ok = bool(aug) and w is None
            detail += f"; terminating assignments at lines {[a.lineno for a in aug]}; unterminated path: {w is not None}"
        ctx.ob(rid, lf, "listing prefix is separator-terminated", n, ok,
               detail + ("" if ok else ": a string-prefix match makes list_files('data') return 'data_old/...' and "
                         "list_files('metadata') return the version hint; the local backend returns neither (and GC would delete "
                         "data_old/* as orphans)"))


def _str_template(ctx: Ctx, outer: FunctionInfo, inner: FunctionInfo, e: ast.AST, depth: int = 0) -> Optional[str]:
    """A string-building expression as a template with {<expr>} holes: f-string, <const>.format(...), or a variable of the
    enclosing function with a single such definition."""
    if depth > 3:
        return None
    if isinstance(e, ast.Name):
        for fn in (inner, outer):
            defs = [x.value for x in ast.walk(fn.node) if isinstance(x, ast.Assign) and len(x.targets) == 1
                    and isinstance(x.targets[0], ast.Name) and x.targets[0].id == e.id]
            if len(defs) == 1:
                return _str_template(ctx, outer, inner, defs[0], depth + 1)
        return None
    if isinstance(e, ast.JoinedStr):
        return "".join(str(v.value) if isinstance(v, ast.Constant) else "{" + norm_text(v.value) + "}" for v in e.values)  # type: ignore[attr-defined]
    if isinstance(e, ast.Call) and isinstance(e.func, ast.Attribute) and e.func.attr == "format":
        base = ctx.prog.const_str(e.func.value, outer.module, outer)
        if base is None:
            return None
        out = base
        for k in e.keywords:
            if k.arg:
                out = out.replace("{" + k.arg + "}", "{\x00" + norm_text(k.value) + "}")
        for a in e.args:
            out = out.replace("{}", "{\x00" + norm_text(a) + "}", 1)
        return out.replace("\x00", "")
    if isinstance(e, ast.BinOp) and isinstance(e.op, ast.Mod) and isinstance(e.left, ast.Constant) and isinstance(e.left.value, str):
        args = e.right.elts if isinstance(e.right, ast.Tuple) else [e.right]
        out = e.left.value
        for a in args:
            out = re.sub(r"%[sd]", lambda _m: "{" + norm_text(a) + "}", out, count=1)
        return out
    return None


Lin = Dict[str, int]


def _lin_add(a: Lin, b: Lin, sign: int = 1) -> Lin:
    out = dict(a)
    for k, v in b.items():
        out[k] = out.get(k, 0) + sign * v
    return {k: v for k, v in out.items() if v != 0 or k == ""}


def _upper_bounds(ctx: Ctx, f: FunctionInfo, e: Optional[ast.AST], at: int, depth: int = 0) -> List[Lin]:
    """Linear forms (symbol -> coefficient, '' -> constant) each of which is >= the integer expression e: exact for
    + / - / constants / attributes / single-definition locals / results of helpers analysed in place, one alternative per
    argument for min(...).  [] when nothing can be said."""
    if e is None or depth > 10:
        return []
    if isinstance(e, ast.Constant) and isinstance(e.value, int) and not isinstance(e.value, bool):
        return [{"": e.value}]
    if isinstance(e, ast.BinOp) and isinstance(e.op, (ast.Add, ast.Sub)):
        ls = _upper_bounds(ctx, f, e.left, at, depth + 1)
        if isinstance(e.op, ast.Add):
            rs = _upper_bounds(ctx, f, e.right, at, depth + 1)
            return [_lin_add(a, b) for a in ls for b in rs][:16]
        rx = _exact(ctx, f, e.right, at, depth + 1)
        return [_lin_add(a, rx, -1) for a in ls] if rx is not None else []
    if isinstance(e, ast.Call) and isinstance(e.func, ast.Name) and e.func.id == "min" and e.args and not e.keywords:
        return [u for a in e.args for u in _upper_bounds(ctx, f, a, at, depth + 1)][:16]
    if isinstance(e, ast.Call) and isinstance(e.func, ast.Name) and e.func.id == "max" and len(e.args) == 2 and not e.keywords \
            and any(isinstance(a, ast.Constant) and a.value == 0 for a in e.args) and _REQ_NODE.get("node") is not None:
        # `count = max(size - pos, 0)` with the request only reachable when `count != 0` (the `if count == 0: return` guard):
        # there count is the other operand
        other = next(a for a in e.args if not (isinstance(a, ast.Constant) and a.value == 0))
        rn = _REQ_NODE["node"]
        for pol, fe, fat in facts_at(ctx, f, rn):
            if isinstance(fe, ast.Compare) and len(fe.ops) == 1 and isinstance(fe.comparators[0], ast.Constant) and fe.comparators[0].value == 0:
                nonzero = (pol == "false" and isinstance(fe.ops[0], (ast.Eq, ast.LtE))) or (pol == "true" and isinstance(fe.ops[0], (ast.NotEq, ast.Gt)))
                if nonzero:
                    chain = [fe.left]
                    seen_ = 0
                    while chain and seen_ < 6:
                        x_ = chain.pop()
                        seen_ += 1
                        if x_ is e:
                            return _upper_bounds(ctx, f, other, at, depth + 1)
                        if isinstance(x_, (ast.Name, ast.Call)):
                            chain += [s_[0] for s_ in resolve_value(ctx, f, x_, fat) if s_[0] is not None and s_[0] is not x_]
        return []
    if isinstance(e, (ast.Name, ast.Call)):
        srcs = resolve_value(ctx, f, e, at)
        if len(srcs) == 1 and srcs[0][0] is not None and srcs[0][0] is not e:
            return _upper_bounds(ctx, f, srcs[0][0], srcs[0][1], depth + 1)
    if isinstance(e, (ast.Name, ast.Attribute)):
        return [{norm_text(e): 1, "": 0}]
    return []


_REQ_NODE: Dict[str, Optional[Node]] = {"node": None}


def _exact(ctx: Ctx, f: FunctionInfo, e: Optional[ast.AST], at: int, depth: int = 0) -> Optional[Lin]:
    """The linear form equal to e (no min / max / opaque call inside), or None."""
    if e is None or any(isinstance(x, ast.Call) and isinstance(x.func, ast.Name) and x.func.id in ("min", "max") for x in ast.walk(e)):
        srcs = resolve_value(ctx, f, e, at) if isinstance(e, (ast.Name,)) else []
        if not (len(srcs) == 1 and srcs[0][0] is not e):
            return None
    ub = _upper_bounds(ctx, f, e, at, depth)
    return ub[0] if len(ub) == 1 else None


def _positive_fact(ctx: Ctx, f: FunctionInfo, pol: str, e: ast.AST, at: int) -> Optional[Lin]:
    """The linear form X such that the fact says X > 0 (integers): a < b -> b - a; a <= b -> b - a + 1; ..."""
    if not (isinstance(e, ast.Compare) and len(e.ops) == 1 and pol in ("true", "false")):
        return None
    a, b = _exact(ctx, f, e.left, at), _exact(ctx, f, e.comparators[0], at)
    if a is None or b is None:
        return None
    op = type(e.ops[0])
    if pol == "false":
        op = {ast.Lt: ast.GtE, ast.LtE: ast.Gt, ast.Gt: ast.LtE, ast.GtE: ast.Lt}.get(op)  # type: ignore[assignment]
    if op is ast.Lt:
        return _lin_add(b, a, -1)
    if op is ast.LtE:
        return _lin_add(_lin_add(b, a, -1), {"": 1})
    if op is ast.Gt:
        return _lin_add(a, b, -1)
    if op is ast.GtE:
        return _lin_add(_lin_add(a, b, -1), {"": 1})
    return None


def _clamped_count_guard(ctx: Ctx, m: FunctionInfo, c: Node) -> bool:
    """The EOF guard spelled through a clamped byte count: `remaining = max(size - pos, 0)`, `count = remaining` or
    `min(len(b), remaining)`, and the request is reached only when `count != 0` (or `count > 0`).  count is non-negative and at
    most max(size - pos, 0), so count >= 1 gives size - pos >= 1."""
    def remaining_like(e: Optional[ast.AST], at: int, depth: int = 0) -> bool:
        if e is None or depth > 6:
            return False
        for src, sat in resolve_value(ctx, m, e, at):
            if not (isinstance(src, ast.Call) and isinstance(src.func, ast.Name) and src.func.id == "max" and len(src.args) == 2 and not src.keywords):
                return False
            zero = [a for a in src.args if isinstance(a, ast.Constant) and a.value == 0]
            other = [a for a in src.args if not (isinstance(a, ast.Constant) and a.value == 0)]
            if len(zero) != 1 or len(other) != 1:
                return False
            x = _exact(ctx, m, other[0], sat)
            if x is None or {k: v for k, v in x.items() if k != ""} != {"self._size": 1, "self._pos": -1} or x.get("", 0) > 0:
                return False
        return True

    def bounded(e: ast.AST, at: int) -> Tuple[bool, bool]:
        """(e <= remaining on every definition, e >= 0 on every definition)"""
        le, nonneg = True, True
        srcs = resolve_value(ctx, m, e, at)
        if not srcs:
            return False, False
        g_ = ctx.cfg(m)
        for src, sat in srcs:
            if src is None:
                return False, False
            # a definition under a constant-false condition (`want is None` with the helper's `want=None` bound in place) is dead
            dead = False
            for pol_, e_, _a in facts_at(ctx, m, g_.nodes[sat]):
                if isinstance(e_, ast.Compare) and len(e_.ops) == 1 and isinstance(e_.ops[0], (ast.Is, ast.IsNot)) \
                        and isinstance(e_.left, ast.Constant) and isinstance(e_.comparators[0], ast.Constant) and pol_ in ("true", "false"):
                    truth = (e_.left.value is e_.comparators[0].value) == isinstance(e_.ops[0], ast.Is)
                    if truth != (pol_ == "true"):
                        dead = True
            if dead:
                continue
            if remaining_like(src, sat):
                continue
            if isinstance(src, ast.Call) and isinstance(src.func, ast.Name) and src.func.id == "min" and not src.keywords and src.args:
                if not any(remaining_like(a, sat) for a in src.args):
                    le = False
                for a in src.args:
                    if remaining_like(a, sat):
                        continue
                    ws = resolve_value(ctx, m, a, sat)
                    if not ws or not all(isinstance(w, ast.Call) and isinstance(w.func, ast.Name) and w.func.id == "len" for w, _a in ws):
                        nonneg = False
                continue
            return False, False
        return le, nonneg

    for pol, fe, fat in facts_at(ctx, m, c):
        if pol not in ("true", "false"):
            continue
        x, strict = None, False
        if isinstance(fe, ast.Compare) and len(fe.ops) == 1 and isinstance(fe.comparators[0], ast.Constant) and fe.comparators[0].value == 0:
            op = type(fe.ops[0])
            if (op is ast.Eq and pol == "false") or (op is ast.NotEq and pol == "true"):
                x = fe.left
            elif (op is ast.Gt and pol == "true") or (op is ast.LtE and pol == "false"):
                x, strict = fe.left, True
        elif isinstance(fe, ast.Name) and pol == "true":
            x = fe
        if x is None:
            continue
        le, nonneg = bounded(x, fat)
        if le and (strict or nonneg):
            return True
    return False


def r6(ctx: Ctx) -> None:
    ctx.rule("C20.R6", "range reader: reads are clamped to the object, only in-range bytes are requested, a negative seek / "
             "unknown whence raise", 5)
    rf = ctx.prog.cls(SB + ".S3RangeFile")
    grf0 = rf.methods.get("_get_range")
    if grf0 is None:
        # by role: the one method of the class (not a read API) whose request carries a Range header
        byrole0 = [m_ for m_ in rf.methods.values() if m_.name not in ("read", "readall", "readinto", "seek")
                   and any(kwarg(n_.ast, "Range") is not None for sc_ in [m_] + list(m_.nested.values()) for n_ in ctx.cfg(sc_).calls())]
        grf0 = byrole0[0] if len(byrole0) == 1 else None
    grn = grf0.name if grf0 is not None else "_get_range"
    # (offset, length) form: the range function computes `last = offset + length - 1` itself
    length_form = False
    if grf0 is not None:
        pn0 = [p.name for p in grf0.params if p.name != "self"]
        if len(pn0) >= 2:
            length_form = any(isinstance(x, ast.Assign) and norm_text(x.value).replace(" ", "") in (
                f"{pn0[0]}+{pn0[1]}-1", f"{pn0[1]}+{pn0[0]}-1", f"({pn0[0]}+{pn0[1]})-1") for x in ast.walk(grf0.node))
    for name in ("readinto", "readall"):
        m = rf.methods.get(name)
        if m is None:
            raise AnalysisError(f"S3RangeFile.{name} vanished")
        g = ctx.cfg(m)
        gr = ctx.calls(m, name=grn)
        brs = [b for b in g.nodes if b.kind == "branch" and "_pos" in b.text and "_size" in b.text]
        for c in gr:
            ok = False
            for b in brs:
                cmp_ = b.ast
                if not isinstance(cmp_, ast.Compare):
                    continue
                # `pos >= size` (not `>`: a read AT the end must not issue a request either)
                past = isinstance(cmp_.ops[0], ast.GtE) and "_pos" in norm_text(cmp_.left) and "_size" in norm_text(cmp_.comparators[0])
                if not past and not (isinstance(cmp_.ops[0], ast.Lt) and "_pos" in norm_text(cmp_.left) and "_size" in norm_text(cmp_.comparators[0])):
                    continue
                lab = "true" if past else "false"
                t = edge_target(g, b, lab)
                o = edge_target(g, b, "false" if past else "true")
                if t is not None and c.id not in reachable_from(g, t, NORMAL) and o is not None and c.id in reachable_from(g, o, NORMAL):
                    ok = True
            if not ok:
                # the same guard in another arithmetic shape (`remaining = self._size - self._pos ... if remaining <= 0: return`):
                # some fact known at the request says  size - pos - k > 0  with k >= 0
                for pol, fe, fat in facts_at(ctx, m, c):
                    x = _positive_fact(ctx, m, pol, fe, fat)
                    if x is not None and {k: v for k, v in x.items() if k != ""} == {"self._size": 1, "self._pos": -1} and x.get("", 0) <= 0:
                        ok = True
            if not ok:
                ok = _clamped_count_guard(ctx, m, c)
            ctx.ob("C20.R6", m, f"{name}: no request at or past EOF", c, ok, "_get_range is only reachable when pos < size")
            last = c.ast.args[1] if isinstance(c.ast, ast.Call) and len(c.ast.args) > 1 else None
            if length_form and last is not None and isinstance(c.ast, ast.Call):
                # the caller hands (offset, length): the last byte requested is offset + length - 1
                last = ast.BinOp(left=ast.BinOp(left=c.ast.args[0], op=ast.Add(), right=last), op=ast.Sub(), right=ast.Constant(value=1))
                ast.copy_location(last, c.ast)
                ast.fix_missing_locations(last)
            sl = ctx.slicer(m)
            org = sl.origins(last, c.id)
            txt = " ".join(norm_text(e) for e in org["exprs"])
            ok2 = ("min(" in txt and "_size" in txt and "- 1" in txt) or norm_text(last) == "self._size - 1"
            if not ok2:
                # linear form: some upper bound of `last` minus (size - 1) is a constant <= 0
                _REQ_NODE["node"] = c
                ubs_ = _upper_bounds(ctx, m, last, c.id)
                _REQ_NODE["node"] = None
                for u in ubs_:
                    dlt = _lin_add(u, {"self._size": 1, "": -1}, -1)
                    if all(v == 0 for k, v in dlt.items() if k != "") and dlt.get("", 0) <= 0:
                        ok2 = True
            ctx.ob("C20.R6", m, f"{name}: last requested byte <= size - 1", c, ok2, f"last = {norm_text(last)} <- {txt[:100]}")
    sk = rf.methods.get("seek")
    if sk is None:
        raise AnalysisError("S3RangeFile.seek vanished")
    g = ctx.cfg(sk)
    neg = [b for b in g.nodes if b.kind == "branch" and isinstance(b.ast, ast.Compare) and isinstance(b.ast.ops[0], ast.Lt)
           and isinstance(b.ast.comparators[0], ast.Constant) and b.ast.comparators[0].value == 0]
    ok = False
    for b in neg:
        t = edge_target(g, b, "true")
        if t is not None:
            reach = reachable_from(g, t, NORMAL)
            ok = any(g.nodes[x].kind == "raise" and g.nodes[x].raised == "ValueError" for x in reach) and g.exit not in reach
    dom = ctx.dom(sk, NORMAL)
    sets = [n for n in g.nodes if n.kind == "stmt" and isinstance(n.ast, ast.Assign) and norm_text(n.ast.targets[0]) == "self._pos"]
    ctx.ob("C20.R6", sk, "negative position raises before the position is stored", neg[0] if neg else None,
           ok and bool(sets) and all(any(b.id in dom[s.id] for b in neg) for s in sets), "a negative position is an error")
    ssl = ctx.slicer(sk)
    odd = []
    shown = []
    for st in sets:
        org = ssl.origins(st.ast.value, st.id)  # type: ignore[union-attr]
        shown += sorted({norm_text(e)[:40] for e in org["exprs"]})
        clamp = [c for c in org["calls"] if isinstance(c, ast.Call) and (dotted(c.func) or "") in ("max", "min", "abs")]
        cond = [e for x in org["exprs"] for e in ast.walk(x) if isinstance(e, ast.IfExp)]
        if clamp or cond:
            odd.append(st)
    ctx.ob("C20.R6", sk, "target position is plain arithmetic (no clamping that hides a negative position)", odd[0] if odd else (sets[0] if sets else None),
           bool(sets) and not odd, f"definitions of the target position: {shown[:6]}"
           + ("; a clamped position makes seek(-k, SEEK_END) past the start succeed where a local file raises" if odd else ""))
    rs = [n for n in g.nodes if n.kind == "raise" and n.raised == "ValueError"]
    whence_br = [b for b in g.nodes if b.kind == "branch" and "whence" in b.text]
    ok = len(whence_br) >= 3 and len(rs) >= 2
    if not ok:
        # table-driven form: the handler looked up for `whence` is None -> ValueError
        for r_ in rs:
            for pol, e, at in facts_at(ctx, sk, r_):
                if pol == "null" and isinstance(e, ast.Name) and "whence" in ssl.origins(e, at)["names"]:
                    ok = True
    ctx.ob("C20.R6", sk, "unknown whence raises", whence_br[-1] if whence_br else (rs[0] if rs else None), ok, "SET / CUR / END else ValueError")
    grf = rf.methods.get("_get_range")
    if grf is None:
        # by role: the one method of the class (not a read API) whose request carries a Range header
        byrole = [m_ for m_ in rf.methods.values() if m_.name not in ("read", "readall", "readinto", "seek")
                  and any(kwarg(n_.ast, "Range") is not None for sc_ in [m_] + list(m_.nested.values()) for n_ in ctx.cfg(sc_).calls())]
        grf = byrole[0] if len(byrole) == 1 else None
    ok = False
    tmpl = None
    if grf is not None:
        pn = [p.name for p in grf.params if p.name != "self"]
        cands = list(grf.nested.values())
        # ... or a method of the class handed to the retry helper (functools.partial(self._get_range_once, first, last))
        for x in ast.walk(grf.node):
            if isinstance(x, ast.Attribute) and isinstance(x.value, ast.Name) and x.value.id == "self" and grf.cls is not None \
                    and x.attr in grf.cls.methods and grf.cls.methods[x.attr] is not grf and not ctx.prog.is_known(grf.cls.methods[x.attr]):
                cands.append(grf.cls.methods[x.attr])
        for nf in cands:
            pn_ = pn if nf.parent is grf else [p.name for p in nf.params if p.name != "self"]
            for n in ctx.cfg(nf).calls():
                rk = kwarg(n.ast, "Range")
                if rk is not None:
                    tmpl = _str_template(ctx, grf, nf, rk)
                    ok = len(pn_) >= 2 and tmpl == "bytes={%s}-{%s}" % (pn_[0], pn_[1])
                    if not ok and len(pn_) >= 2 and tmpl is not None:
                        # (offset, length) form: the last byte is a local `offset + length - 1` computed once in the range function
                        m_ = re.fullmatch(r"bytes=\{(\w+)\}-\{(\w+)\}", tmpl)
                        if m_ and m_.group(1) == pn_[0]:
                            defs_ = [x.value for x in ast.walk(grf.node) if isinstance(x, ast.Assign) and len(x.targets) == 1
                                     and isinstance(x.targets[0], ast.Name) and x.targets[0].id == m_.group(2)]
                            ok = len(defs_) == 1 and norm_text(defs_[0]).replace(" ", "") in (
                                f"{pn_[0]}+{pn_[1]}-1", f"{pn_[1]}+{pn_[0]}-1", f"{pn_[0]}-1+{pn_[1]}", f"({pn_[0]}+{pn_[1]})-1")
    ctx.ob("C20.R6", grf or sk, "Range header = bytes=first-last", None, ok, f"exactly the clamped interval is requested (header template: {tmpl!r})")
