"""C20 - both storage backends implement the same contract."""
from __future__ import annotations

import ast
import re
from typing import Dict, List, Optional, Set, Tuple

from ..cfg import NORMAL, Node, handler_classes
from ..core import Ctx
from ..flow import ALL, find_path, names_in
from ..model import AnalysisError, FunctionInfo, dotted, norm_text
from .common import code_branches, resolve_value, effective_compare, facts_at, edge_target, handler_exits, handler_nodes, in_handler, kwarg, reachable_from

EXPLANATION = (
    "Static cross-check of the sibling StorageBackend implementations: (R1) both override every abstract method with "
    "identical signatures, capability flags are consistent; (R2) every public S3 read-type operation converts NoSuchKey/404 "
    "into FileNotFoundError and re-raises everything else (handler decision tables extracted from the CFG); exists() maps 404 "
    "to False and nothing else; (R3) every boto call of the backend / range reader except the conditional PUT runs inside a "
    "closure passed to with_s3_retry; retry_with_backoff re-raises permanent errors before any sleep, bounds its attempts and "
    "lets non-retryable classes propagate; (R4) exists() falls back to a prefix listing only for keys ending in '/'; (R5) "
    "listing confinement: the prefix handed to list_objects_v2 ends at a directory boundary on every path; (R6) the range "
    "reader requests only in-range bytes (dominance of the pos < size guard; Range bounds from min(pos + want, size) - 1), "
    "and a negative seek / unknown whence raise."
    ' Also: (R7) backends keep no mutable per-instance state; an error is permanent only by membership in PERMANENT_S3_ERROR_CODES; hand-written page loops follow NextContinuationToken; seek uses plain arithmetic.'
    " Subclasses of the S3 backend / range reader are held to their parent's rules (R2/R3/R4/R7 iterate the class family)."
    " (R8) every operation reaches its primitive on every normal path and both listings keep every entry; (R9) key mapping round trip by scenario evaluation (_get_s3_key vs the listing's prefix strip).")
NOT_DECIDED = "operation-sequence equivalence of the two backends at run time; S3's own consistency"

SB = "storage_backend"


def check(ctx: Ctx) -> None:
    r1(ctx)
    r2(ctx)
    r3(ctx)
    r4(ctx)
    r5(ctx)
    r6(ctx)
    r7(ctx)
    r8_work(ctx)
    r9_key_roundtrip(ctx)
    r10_listing_exhaustive(ctx)
    r11_utc_ages(ctx)
    r12_stream_faithful(ctx)
    r13_bodies_are_bytes(ctx)


S3_WORK = {"read_file": ("boto.get_object",), "read_file_with_etag": ("boto.get_object",), "open_file": ("boto.get_object",),
           "write_file": ("boto.put_object",), "write_file_cas": ("boto.put_object",), "delete_file": ("boto.delete_object",),
           "exists": ("boto.head_object",), "get_size": ("boto.head_object",), "get_modified_time": ("boto.head_object",),
           "list_files": ("boto.get_paginator", "boto.list_objects_v2")}
LOCAL_WORK = {"read_file": ("builtins.open", "open"), "write_file": ("os.replace",), "delete_file": ("os.remove", "os.unlink"),
              "exists": ("os.path.exists",), "list_files": ("os.walk",), "get_size": ("os.path.getsize",),
              "get_modified_time": ("os.path.getmtime",), "makedirs": ("os.makedirs",)}


def r8_work(ctx: Ctx, rid: str = "C20.R8") -> None:
    ctx.rule(rid, "every backend operation does its work: the S3 methods reach their boto primitive on every normal path of the "
             "(retried) operation, the local ones contain their os primitive, and both list_files keep every entry they are shown "
             "(each iteration over the listed objects reaches the append to the returned list)", 18)
    for cname, table, must in (("S3StorageBackend", S3_WORK, True), ("LocalStorageBackend", LOCAL_WORK, False)):
        base = ctx.prog.cls(f"{SB}.{cname}")
        for ci in family(ctx, base):
            for name, prims in sorted(table.items()):
                m = ci.methods.get(name)
                if m is None:
                    if ci is base:
                        raise AnalysisError(f"{cname}.{name} vanished")
                    continue
                scopes = [m] + list(m.nested.values())
                hits = [(f, n) for f in scopes for n in ctx.cfg(f).calls() if n.id in ctx.cfg(f).reachable() and n.callee is not None
                        and n.callee.kind == "prim" and n.callee.name in prims]
                ok = bool(hits)
                why = f"{prims[0]} present"
                if not hits and any(set(prims) & ctx.eff.prims_reached(f_) for f_ in scopes):
                    ok, why = True, f"{prims[0]} reached through a helper"
                if ok and must:
                    # no normal path through the scope that holds the primitive avoids it (a delegating override is exempt)
                    for f, n in hits[:1]:
                        g = ctx.cfg(f)
                        same = [x.id for ff, x in hits if ff is f]
                        rets = [x.id for x in g.nodes if x.kind == "return"] + [g.exit]
                        w = find_path(g, g.entry, rets, avoid=same, labels=NORMAL)
                        if w is not None and name not in ("exists", "list_files"):
                            ok, why = False, f"a normal path of {f.name} completes without calling {prims[0]}"
                if not ok and not hits and any(isinstance(x, ast.Call) and isinstance(x.func, ast.Attribute) and x.func.attr == name
                                                and isinstance(x.func.value, ast.Call) and dotted(x.func.value.func) == "super"
                                                for x in ast.walk(m.node)):
                    ok, why = True, "delegates to the parent implementation"
                ctx.ob(rid, m, f"{cname}.{name} performs {prims[0]}", None, ok,
                       why if ok else f"{why if hits else prims[0] + ' is never called'}: the operation reports success without "
                       "having read / written / deleted anything", text=f"{ci.name}.{name}")
            lf = ci.methods.get("list_files")
            if lf is None:
                continue
            n_keep = 0
            for f in [lf] + list(lf.nested.values()):
                g = ctx.cfg(f)
                apps = [n for n in g.calls() if isinstance(n.ast, ast.Call) and isinstance(n.ast.func, ast.Attribute)
                        and n.ast.func.attr in ("append", "extend") and any(fr.kind == "loop" for fr in n.frames)
                        and not (n.ast.func.attr == "extend" and n.ast.args and isinstance(n.ast.args[0], (ast.GeneratorExp, ast.ListComp)))]
                n_keep += len(apps)
                for e_ in [n for n in g.calls() if isinstance(n.ast, ast.Call) and isinstance(n.ast.func, ast.Attribute) and n.ast.func.attr == "extend"
                           and n.ast.args and isinstance(n.ast.args[0], (ast.GeneratorExp, ast.ListComp))]:
                    n_keep += 1
                    ctx.ob(rid, f, "listing keeps every entry", e_, not e_.ast.args[0].generators[-1].ifs,  # type: ignore[union-attr]
                           "unfiltered comprehension over the listed objects", text=f"{ci.name}.list_files")
                for r in [x for x in g.nodes if x.kind == "return" and x.ast is not None and x.ast.value is not None]:  # type: ignore[union-attr]
                    v = r.ast.value  # type: ignore[union-attr]
                    comp = v if isinstance(v, ast.ListComp) else (v.args[0] if isinstance(v, ast.Call) and dotted(v.func) in ("list", "sorted")
                                                                  and v.args and isinstance(v.args[0], (ast.GeneratorExp, ast.ListComp)) else None)
                    if comp is not None:
                        n_keep += 1
                        ctx.ob(rid, f, "listing keeps every entry", r, not comp.generators[-1].ifs,
                               "comprehension whose innermost (per-object) level is unfiltered", text=f"{ci.name}.list_files")
                for a in apps:
                    inner = [fr.node for fr in a.frames if fr.kind == "loop"][-1]
                    lp = next(n for n in g.nodes if n.kind == "loop" and n.ast is inner)
                    body = edge_target(g, lp, "true")
                    w = find_path(g, body, [lp.id], avoid=[a.id], labels=NORMAL) if body is not None else None
                    lst = dotted(a.ast.func.value)  # type: ignore[union-attr]
                    returned = any(r.ast is not None and r.ast.value is not None and lst in names_in(r.ast.value)  # type: ignore[union-attr]
                                   for r in g.nodes if r.kind == "return")
                    ctx.ob(rid, f, "listing keeps every entry", a, w is None and returned,
                           "every listed object reaches the result" if w is None and returned else
                           "an entry can be skipped (or the list is not what is returned): recovery and the collector act on a "
                           "short listing", witness=ctx.path_witness(f, w), text=f"{ci.name}.list_files")
            if n_keep == 0:
                ctx.ob(rid, lf, "listing keeps every entry", None, False, "no statement carries the listed objects into the returned list: "
                       "the listing is always empty - recovery finds no metadata file and the table is taken for uninitialised",
                       text=f"{ci.name}.list_files")


def r9_key_roundtrip(ctx: Ctx, rid: str = "C20.R9") -> None:
    ctx.rule(rid, "table-relative listings: what list_files returns for an object is the path that _get_s3_key maps back to that "
             "object's key - decided by scenario evaluation (prefix 'tbl' and no prefix; path 'data/x.parquet'), no code is run", 2)
    from .common import UNKNOWN, explore
    s3 = ctx.prog.cls(SB + ".S3StorageBackend")
    gk = s3.methods.get("_get_s3_key")
    lf = s3.methods.get("list_files")
    if gk is None or lf is None:
        raise AnalysisError("_get_s3_key / list_files vanished from S3StorageBackend")
    pname = next((p.name for p in gk.params if p.name != "self"), "path")
    g = ctx.cfg(gk)
    # the mapping is "prefix + '/' + path" for EVERY path: also one that starts with the prefix's own text, that names a sibling
    # table, or that contains an empty segment (manifests, listings and the collector compare the literal spellings)
    for prefix, rel in (("tbl", "tbl/x.parquet"), ("tbl", "tbl2/data/x.parquet"), ("tbl", "data//x.parquet"), ("wh/t1", "wh/t10/data/x.parquet")):
        env = {"self.prefix": prefix, pname: rel}
        keys = set()
        for nid, store, _asm in explore(ctx, gk, [g.entry], env, stop=[n.id for n in g.nodes if n.kind == "return"]):
            n = g.nodes[nid]
            if n.kind == "return" and n.ast is not None:
                scen = dict(env)
                scen.update({k: v for k, v in store.items() if isinstance(k, str)})
                from .common import concrete_eval
                keys.add(concrete_eval(ctx, gk, n.ast.value, scen, nid))  # type: ignore[union-attr]
        want = prefix + "/" + rel
        ctx.ob(rid, gk, f"_get_s3_key is the plain prefix join for '{rel}'", None, keys == {want},
               f"prefix '{prefix}': '{rel}' -> {sorted(map(repr, keys))} (expected '{want}'): a path is never taken for an already "
               "prefixed key, a sibling table's key or a differently spelled one", text=f"{prefix}|{rel}")
    for label, prefix in (("with a table prefix", "tbl"), ("without a prefix", "")):
        rel = "data/x.parquet"
        env = {"self.prefix": prefix, pname: rel}
        keys = set()
        for nid, store, _asm in explore(ctx, gk, [g.entry], env, stop=[n.id for n in g.nodes if n.kind == "return"]):
            n = g.nodes[nid]
            if n.kind == "return" and n.ast is not None:
                scen = dict(env)
                scen.update({k: v for k, v in store.items() if isinstance(k, str)})
                from .common import concrete_eval
                keys.add(concrete_eval(ctx, gk, n.ast.value, scen, nid))  # type: ignore[union-attr]
        want = (prefix + "/" + rel) if prefix else rel
        ctx.ob(rid, gk, f"_get_s3_key {label}", None, keys == {want}, f"'{rel}' -> {sorted(map(repr, keys))} (expected '{want}')",
               text=label)
        # the listing side: an object with that key comes back as `rel`
        got = set()
        for f in [lf] + list(lf.nested.values()):
            fg = ctx.cfg(f)
            apps = [n for n in fg.calls() if isinstance(n.ast, ast.Call) and isinstance(n.ast.func, ast.Attribute) and n.ast.func.attr == "append"
                    and any(fr.kind == "loop" for fr in n.frames)]
            for a in apps:
                inner = [fr.node for fr in a.frames if fr.kind == "loop"][-1]
                lp = next(n for n in fg.nodes if n.kind == "loop" and n.ast is inner)
                body = edge_target(fg, lp, "true")
                tgt = lp.ast.target  # type: ignore[union-attr]
                if body is None or not isinstance(tgt, ast.Name):
                    continue
                # the loop variable is the listed object: obj["Key"] is the key under study
                scen0 = {"self.prefix": prefix, tgt.id: {"Key": want}}
                for nid, store, _asm in explore(ctx, f, [body], scen0, stop=[a.id]):
                    if nid != a.id:
                        continue
                    scen = dict(scen0)
                    scen.update({k: v for k, v in store.items() if isinstance(k, str)})
                    from .common import concrete_eval
                    got.add(concrete_eval(ctx, f, a.ast.args[0], scen, nid))  # type: ignore[union-attr]
        if got:
            ctx.ob(rid, lf, f"list_files {label}", None, got == {rel}, f"key '{want}' is listed as {sorted(map(repr, got))} (expected '{rel}')",
                   text=label)
        else:
            ctx.ob(rid, lf, f"list_files {label}", None, True, "listing not in the append-loop form (not evaluated)", nontrivial=False, text=label)


def r10_listing_exhaustive(ctx: Ctx, rid: str = "C20.R10") -> None:
    ctx.rule(rid, "the S3 listing is exhaustive: list_files walks every page - either botocore's paginator (no early exit from the "
             "page loop), or a hand-written loop whose next request carries the response's NextContinuationToken and which ends "
             "only when the response says so (IsTruncated false / no next token); a page being short, or the echoed "
             "ContinuationToken, is not an end-of-listing signal", 1)
    base = ctx.prog.cls(SB + ".S3StorageBackend")
    for ci in family(ctx, base):
        lf = ci.methods.get("list_files")
        if lf is None:
            if ci is base:
                raise AnalysisError("S3StorageBackend.list_files vanished")
            continue
        scopes = [lf] + list(lf.nested.values())
        manual = [(f, n) for f in scopes for n in ctx.cfg(f).calls() if n.id in ctx.cfg(f).reachable() and n.callee is not None
                  and n.callee.kind == "prim" and n.callee.name == "boto.list_objects_v2"]
        pag = [(f, n) for f in scopes for n in ctx.cfg(f).calls() if n.callee is not None and n.callee.kind == "prim"
               and n.callee.name == "boto.get_paginator"]
        if not manual:
            ok = bool(pag)
            why = "botocore paginator"
            for f, n in pag:
                g = ctx.cfg(f)
                loops = [l for l in g.nodes if l.kind == "loop" and isinstance(l.ast, ast.For) and "paginate" in norm_text(l.ast.iter)
                         or (l.kind == "loop" and isinstance(l.ast, ast.For) and any(
                             isinstance(c, ast.Call) and isinstance(c.func, ast.Attribute) and c.func.attr == "paginate"
                             for c in ctx.slicer(f).origins(l.ast.iter, l.id)["calls"]))]
                for l in loops:
                    brk = [x for x in g.nodes if isinstance(x.ast, ast.Break) and any(fr.kind == "loop" and fr.node is l.ast for fr in x.frames)
                           and [fr.node for fr in x.frames if fr.kind == "loop"][0] is l.ast]
                    if brk:
                        ok, why = False, "the page loop can be left early (break): later pages are never requested"
            ctx.ob(rid, lf, "every page of the listing is requested", pag[0][1] if pag else None, ok, why, text=ci.name)
            continue
        for f, n in manual:
            g = ctx.cfg(f)
            sl = ctx.slicer(f)
            loops = [fr.node for fr in n.frames if fr.kind == "loop"]
            if not loops:
                ctx.ob(rid, f, "every page of the listing is requested", n, False, "a single list_objects_v2 request returns at most "
                       "1000 keys: without a continuation loop everything after the first page is invisible", text=ci.name)
                continue
            lp_ast = loops[-1]
            # (a) the continuation token sent comes from the response's NextContinuationToken
            tok_srcs: List[ast.AST] = []
            for x in ast.walk(lp_ast):
                if isinstance(x, ast.Assign) and len(x.targets) == 1 and isinstance(x.targets[0], ast.Subscript) \
                        and isinstance(x.targets[0].slice, ast.Constant) and x.targets[0].slice.value == "ContinuationToken":
                    tok_srcs.append(x.value)
                if isinstance(x, ast.keyword) and x.arg == "ContinuationToken":
                    tok_srcs.append(x.value)
                if isinstance(x, ast.Dict):
                    tok_srcs += [v for k, v in zip(x.keys, x.values) if isinstance(k, ast.Constant) and k.value == "ContinuationToken"]
            def from_next(e: ast.AST) -> bool:
                host = next((m for m in g.nodes if m.ast is not None and any(y is e for y in ast.walk(m.ast))), None)
                exprs = list(sl.origins(e, host.id)["exprs"]) + [e] if host is not None else [e]
                keys = {c.value for x_ in exprs for c in ast.walk(x_) if isinstance(c, ast.Constant) and isinstance(c.value, str)}
                return "NextContinuationToken" in keys and "ContinuationToken" not in (keys - {"NextContinuationToken"})
            tok_ok = bool(tok_srcs) and all(from_next(e) for e in tok_srcs)
            # (b) the loop ends only on the response's own end-of-listing signal
            bad_exit = []
            for b in [x for x in g.nodes if x.kind == "branch" and x.ast is not None and any(fr.kind == "loop" and fr.node is lp_ast for fr in x.frames)]:
                leaves = False
                for lab in ("true", "false"):
                    t = edge_target(g, b, lab)
                    if t is None:
                        continue
                    if isinstance(g.nodes[t].ast, ast.Break) or g.nodes[t].kind == "return" or not any(
                            fr.kind == "loop" and fr.node is lp_ast for fr in g.nodes[t].frames):
                        leaves = True
                if not leaves:
                    continue
                exprs = list(sl.origins(b.ast, b.id)["exprs"]) + [b.ast]
                consts = {c.value for x_ in exprs for c in ast.walk(x_) if isinstance(c, ast.Constant) and isinstance(c.value, str)}
                uses_len = any(isinstance(c, ast.Call) and dotted(c.func) == "len" for c in ast.walk(b.ast))
                if uses_len or not (consts & {"IsTruncated", "NextContinuationToken"}):
                    bad_exit.append(norm_text(b.ast)[:50])
            ok = tok_ok and not bad_exit
            ctx.ob(rid, f, "every page of the listing is requested", n, ok,
                   "continuation on NextContinuationToken until the response is not truncated" if ok else
                   ("the next request does not carry the response's NextContinuationToken" if not tok_ok else
                    f"the loop can end on {bad_exit}: a short or filtered page is legal S3 while more keys follow") +
                   " - the listing stops early without an error (recovery misses metadata files, the collector misses live markers)",
                   text=ci.name)


def r11_utc_ages(ctx: Ctx, rid: str = "C20.R11") -> None:
    ctx.rule(rid, "object ages are computed in UTC: a value taken from a response's LastModified (an aware UTC datetime) becomes "
             "seconds only through .timestamp(), and is subtracted only from an aware now() - never time.mktime / timetuple / "
             "replace(tzinfo=None) / a naive datetime.now() (on a host east of UTC every marker and every lock then looks hours "
             "old: live markers are 'abandoned', live locks are 'expired')", 3)
    n_uses = 0
    for f in sorted(ctx.prog.functions.values(), key=lambda x: x.qname):
        if isinstance(f.node, ast.Lambda):
            continue
        if not any(isinstance(c, ast.Constant) and c.value == "LastModified" for c in ast.walk(f.node)):
            continue
        # variables carrying the LastModified value (transitively through plain assignments)
        lm: Set[str] = set()

        def mentions(e: ast.AST) -> bool:
            return any((isinstance(x, ast.Constant) and x.value == "LastModified") or (isinstance(x, ast.Name) and x.id in lm) for x in ast.walk(e))

        changed = True
        while changed:
            changed = False
            for x in ast.walk(f.node):
                if isinstance(x, ast.Assign) and mentions(x.value):
                    for t in x.targets:
                        for nm in ([t] if isinstance(t, ast.Name) else [y for y in ast.walk(t) if isinstance(y, ast.Name)]):
                            if nm.id not in lm:
                                lm.add(nm.id)
                                changed = True
        for st in [x for x in ast.walk(f.node) if isinstance(x, ast.stmt) and not isinstance(x, (ast.FunctionDef, ast.AsyncFunctionDef, ast.ClassDef,
                                                                                                 ast.If, ast.For, ast.While, ast.Try, ast.With))]:
            exprs = [c for c in ast.iter_child_nodes(st) if isinstance(c, ast.expr)]
            if not any(mentions(e) for e in exprs):
                continue
            bad = []
            for e in exprs:
                for x in ast.walk(e):
                    if isinstance(x, ast.Call):
                        d = dotted(x.func) or ""
                        if d in ("time.mktime", "calendar.timegm") and any(mentions(a) for a in x.args):
                            bad.append(d)
                        if isinstance(x.func, ast.Attribute) and x.func.attr in ("timetuple", "utctimetuple") and mentions(x.func.value):
                            bad.append("." + x.func.attr + "()")
                        if isinstance(x.func, ast.Attribute) and x.func.attr == "replace" and mentions(x.func.value) and any(
                                k.arg == "tzinfo" and isinstance(k.value, ast.Constant) and k.value.value is None for k in x.keywords):
                            bad.append(".replace(tzinfo=None)")
                    if isinstance(x, ast.BinOp) and isinstance(x.op, ast.Sub) and (mentions(x.left) or mentions(x.right)):
                        other = x.right if mentions(x.left) else x.left
                        for c in ast.walk(other):
                            if isinstance(c, ast.Call) and (dotted(c.func) or "").split(".")[-1] in ("now", "utcnow", "today") \
                                    and "datetime" in (dotted(c.func) or "") and not c.args and not c.keywords:
                                bad.append(norm_text(c) + " (naive)")
            n_uses += 1
            ctx.ob(rid, f, "LastModified handled as an aware UTC instant", None, not bad,
                   "`.timestamp()` / aware arithmetic" if not bad else f"{sorted(set(bad))}: UTC fields read as local time - ages are off by the "
                   "host's UTC offset", text=norm_text(st)[:60], line=st.lineno)
    if n_uses < 3:
        raise AnalysisError(f"only {n_uses} uses of LastModified found")


def r12_stream_faithful(ctx: Ctx, rid: str = "C20.R12") -> None:
    ctx.rule(rid, "the S3 body stream is a faithful pipe: S3FileStream.read returns what body.read(n) returned - no handler that "
             "turns a transport error into end-of-stream, no buffering / 'exhausted' state that can take a short read for the end - "
             "and open_file hands out the S3FileStream wrapper (a multi-block Avro manifest cut at a block boundary otherwise "
             "parses as a shorter, valid manifest)", 3)
    from .common import state_writes
    fs = ctx.prog.cls(SB + ".S3FileStream")
    rd = fs.methods.get("read")
    if rd is None:
        raise AnalysisError("S3FileStream.read vanished")
    g = ctx.cfg(rd)
    swallowing = [hn for hn in handler_nodes(ctx, rd) if any(handler_exits(ctx, rd, hn)[k] for k in ("fallthrough", "return", "loop"))]
    ctx.ob(rid, rd, "read swallows nothing", swallowing[0] if swallowing else None, not swallowing,
           "every failure of the body read propagates to the parser / checksum loop")
    sw = state_writes(ctx, rd, keep_report_only=False)
    ctx.ob(rid, rd, "read keeps no stream state", sw[0][0] if sw else None, not sw,
           "no buffer / end-of-stream flag" if not sw else f"stores {sw[0][1]}: a flag or buffer decides when the stream 'ended'")
    rets = [r for r in g.nodes if r.kind == "return" and r.id in g.reachable() and r.ast is not None and r.ast.value is not None]  # type: ignore[union-attr]
    direct = bool(rets)
    for r in rets:
        srcs = resolve_value(ctx, rd, r.ast.value, r.id)  # type: ignore[union-attr]
        if not srcs or not all(isinstance(x, ast.Call) and isinstance(x.func, ast.Attribute) and x.func.attr == "read"
                               and "body" in norm_text(x.func.value) for x, _a in srcs):
            direct = False
    ctx.ob(rid, rd, "read returns body.read(n) unchanged", rets[0] if rets else None, direct,
           "the bytes handed on are exactly what the response body produced")
    s3 = ctx.prog.cls(SB + ".S3StorageBackend")
    for ci in family(ctx, s3):
        of = ci.methods.get("open_file")
        if of is None:
            continue
        ok = False
        for f in [of] + list(of.nested.values()):
            fg = ctx.cfg(f)
            for r in [x for x in fg.nodes if x.kind == "return" and x.id in fg.reachable() and x.ast is not None and x.ast.value is not None]:  # type: ignore[union-attr]
                for x, _a in resolve_value(ctx, f, r.ast.value, r.id):  # type: ignore[union-attr]
                    if isinstance(x, ast.Call) and (dotted(x.func) or "").split(".")[-1] == "S3FileStream":
                        ok = True
        ctx.ob(rid, of, "open_file wraps the body in S3FileStream", None, ok,
               "botocore's StreamingBody.__enter__ returns the RAW urllib3 stream: `with open_file(...)` readers would skip the "
               "Content-Length check and see a dropped connection as a clean end of file", text=ci.name)


def r13_bodies_are_bytes(ctx: Ctx, rid: str = "C20.R13") -> None:
    ctx.rule(rid, "what a PUT uploads is bytes: the Body of every put_object of the backend (and of the lock providers) is a bytes "
             "value - never a file-like object (io.BytesIO / open): a retried attempt would upload from the consumed stream's "
             "end and store an empty object with status 200", 2)
    n = 0
    for f in sorted(ctx.prog.functions.values(), key=lambda x: x.qname):
        if isinstance(f.node, ast.Lambda) or f.module.short not in ("storage_backend", "lock_provider"):
            continue
        g = ctx.cfg(f)
        for c in g.calls():
            if c.id not in g.reachable() or c.callee is None or c.callee.kind != "prim" or c.callee.name != "boto.put_object":
                continue
            body = kwarg(c.ast, "Body")
            if body is None:
                continue
            n += 1
            # the slice of the Body argument, looked up in the enclosing function too (closure variables)
            exprs = set(ctx.slicer(f).origins(body, c.id)["exprs"]) | {body}
            if f.parent is not None:
                for nm in names_in(body):
                    for x in ast.walk(f.parent.node):
                        if isinstance(x, ast.Assign) and any(isinstance(t, ast.Name) and t.id == nm for t in x.targets):
                            exprs.add(x.value)
            streams = sorted({norm_text(x)[:40] for e in exprs for x in ast.walk(e) if isinstance(x, ast.Call)
                              and (dotted(x.func) or "").split(".")[-1] in ("BytesIO", "open", "StringIO", "TemporaryFile", "NamedTemporaryFile", "SpooledTemporaryFile")})
            ctx.ob(rid, f, "put_object Body is a bytes value", c, not streams,
                   "bytes are re-sent in full on every attempt" if not streams else f"Body is a stream ({streams}): consumed by the first attempt")
    if n < 2:
        raise AnalysisError(f"only {n} put_object call(s) with a Body found")


def _sig(f: FunctionInfo) -> List[Tuple[str, str, str]]:
    return [(p.name, p.kind, norm_text(p.default) if p.default is not None else "") for p in f.params]


def r1(ctx: Ctx) -> None:
    ctx.rule("C20.R1", "interface agreement: every abstract method is overridden by both backends with the same signature; "
             "supports_cas implies write_file_cas / read_file_with_etag are overridden", 13)
    base = ctx.prog.cls(SB + ".StorageBackend")
    local = ctx.prog.cls(SB + ".LocalStorageBackend")
    s3 = ctx.prog.cls(SB + ".S3StorageBackend")
    for name, m in sorted(base.methods.items()):
        if not m.is_abstract and name not in ("open_seekable",):
            continue
        for impl in (local, s3):
            im = impl.methods.get(name)
            ok = im is not None and _sig(im) == _sig(m)
            ctx.ob("C20.R1", im or m, f"{impl.name}.{name} matches the abstract signature", None, ok,
                   f"abstract {_sig(m)} vs {_sig(im) if im else 'MISSING'}", nontrivial=False, text=f"{impl.name}.{name}")
    for impl in (local, s3):
        sc = impl.methods.get("supports_cas")
        claims = sc is not None and not all(isinstance(r.value, ast.Constant) and r.value.value is False
                                            for r in ast.walk(sc.node) if isinstance(r, ast.Return))
        if claims:
            ok = "write_file_cas" in impl.methods and "read_file_with_etag" in impl.methods
            ctx.ob("C20.R1", sc, f"{impl.name}: supports_cas => CAS primitives overridden", None, ok, "", text=impl.name)
    # json helpers agree
    for name in ("read_json", "write_json"):
        a, b = local.methods.get(name), s3.methods.get(name)
        ok = a is not None and b is not None and ast.dump(ast.Module(body=a.node.body[-2:], type_ignores=[])) == \
            ast.dump(ast.Module(body=b.node.body[-2:], type_ignores=[]))
        ctx.ob("C20.R1", a or base.methods[name], f"{name}: sibling implementations are identical", None, ok,
               "same encoding (utf-8, indent=2) on both backends", text=name)


def _closure_for(ctx: Ctx, m: FunctionInfo) -> List[FunctionInfo]:
    return list(m.nested.values())


def family(ctx: Ctx, ci) -> list:  # type: ignore[no-untyped-def]
    """ci and every class of the package deriving from it (a backend flavour added later is held to its parent's rules)."""
    out = [ci]
    changed = True
    while changed:
        changed = False
        for c in sorted(ctx.prog.classes.values(), key=lambda x: x.qname):
            if c not in out and any(b == o.qname or b.rsplit(".", 1)[-1] == o.name for b in c.base_names for o in out):
                out.append(c)
                changed = True
    return out


NOT_FOUND_CODES = {"NoSuchKey", "404", "NotFound"}
RESPONSE_KEYS = {"Error", "Code", "ResponseMetadata", "HTTPStatusCode", "Message"}


def r2(ctx: Ctx) -> None:
    ctx.rule("C20.R2", "not-found mapping: S3 read-type operations map NoSuchKey/404 to FileNotFoundError and re-raise everything "
             "else; exists() maps 404 to False only", 6)
    s3_base = ctx.prog.cls(SB + ".S3StorageBackend")
    for s3, name, code in [(c, nm, cd) for c in family(ctx, s3_base) for nm, cd in (
            ("read_file", "NoSuchKey"), ("open_file", "NoSuchKey"), ("read_file_with_etag", "NoSuchKey"), ("get_size", "404"),
            ("get_modified_time", "404"))]:
        m = s3.methods.get(name)
        if m is None:
            if s3 is not s3_base:
                continue  # not overridden: inherits the checked implementation
            raise AnalysisError(f"S3StorageBackend.{name} vanished")
        ok = False
        detail = "no ClientError handler"
        for nf in _closure_for(ctx, m):
            g = ctx.cfg(nf)
            for hn in handler_nodes(ctx, nf):
                if "ClientError" not in handler_classes(hn.ast):  # type: ignore[arg-type]
                    continue
                ex = handler_exits(ctx, nf, hn)
                raised = [r.raised for r in ex["raise"]]
                codes = []
                good_branch = False
                for b, cs, mr, orr, _mo, _oo in code_branches(ctx, nf, hn):
                    codes += sorted(cs)
                    if code in cs and mr == {"FileNotFoundError"} and "reraise" in orr and "FileNotFoundError" not in orr:
                        good_branch = (set(cs) - RESPONSE_KEYS) <= NOT_FOUND_CODES  # 403 / AccessDenied / 5xx are NOT "no such object"
                ok = good_branch and not ex["fallthrough"] and not ex["return"] and code in codes
                detail = f"codes {codes}; raises {raised}; swallow={bool(ex['fallthrough'] or ex['return'])}"
        if name == "get_size":
            pass
        ctx.ob("C20.R2", m, f"{name}: {code} -> FileNotFoundError, else re-raise", None, ok, detail, text=name)
    for s3 in family(ctx, s3_base):
        ex_m = s3.methods.get("exists")
        if ex_m is None:
            if s3 is s3_base:
                raise AnalysisError("S3StorageBackend.exists vanished")
            continue
        okx = False
        detail = ""
        for nf in _closure_for(ctx, ex_m):
            g = ctx.cfg(nf)
            for hn in handler_nodes(ctx, nf):
                exx = handler_exits(ctx, nf, hn)
                brs = [b for b in g.nodes if b.kind == "branch" and in_handler(b, hn.ast) and "404" in b.text]  # type: ignore[arg-type]
                rer = any(r.raised == "reraise" for r in exx["raise"])
                absent = sorted({c for _b, cs, _mr, _or, _mo, _oo in code_branches(ctx, nf, hn) for c in cs} - RESPONSE_KEYS)
                okx = bool(brs) and rer and not exx["return"] and set(absent) <= NOT_FOUND_CODES
                detail = f"branch on 404: {bool(brs)}; codes read as 'absent': {absent}; other errors re-raised: {rer}"
        ctx.ob("C20.R2", ex_m, "exists: 404 -> False, everything else raises", None, okx, detail, text="exists")
        osk = s3.methods.get("open_seekable")
        ok = osk is not None and bool(ctx.calls(osk, name="get_size"))
        if ok:
            # ... and from nothing else: the size handed to the range reader is the object's real length (HEAD), never a number
            # a caller / manifest entry declared (a wrong declared size puts the Parquet footer at the wrong offset)
            og = ctx.cfg(osk)
            for c in [n for n in og.calls() if n.callee is not None and n.callee.kind == "ctor" and n.callee.cls is not None
                      and n.callee.cls.name == "S3RangeFile"]:
                sz = kwarg(c.ast, "size", 3)
                srcs = resolve_value(ctx, osk, sz, c.id) if sz is not None else []
                if not srcs or not all(isinstance(x, ast.Call) and (dotted(x.func) or "").split(".")[-1] == "get_size" for x, _a in srcs):
                    ok = False
        ctx.ob("C20.R2", osk or ex_m, "open_seekable learns the size through get_size (not-found mapping included)", None, ok, "", text="open_seekable")


def _under_retry(ctx: Ctx, f: FunctionInfo, depth: int = 0, seen: Optional[Set[str]] = None) -> bool:
    """Does function f only ever run inside with_s3_retry?  Either f (a closure / method) is handed to with_s3_retry as
    its operation (directly or wrapped in functools.partial), or every call site of f lies in a function that does."""
    seen = seen if seen is not None else set()
    if f.qname in seen or depth > 5:
        return False
    seen.add(f.qname)
    scopes = [f.parent] if f.parent is not None else []
    if f.cls is not None:
        scopes += [m_ for m_ in f.cls.methods.values()] + [x for m_ in f.cls.methods.values() for x in m_.nested.values()]
    for sc in scopes:
        if sc is None:
            continue
        for r in ctx.cfg(sc).calls():
            if not (isinstance(r.ast, ast.Call) and r.ast.args):
                continue
            if not (any(t.name == "with_s3_retry" for t in ctx.eff.callees(sc, r)) or (dotted(r.ast.func) or "").endswith("with_s3_retry")):
                continue
            op = r.ast.args[0]
            if isinstance(op, ast.Call) and (dotted(op.func) or "").split(".")[-1] == "partial" and op.args:
                op = op.args[0]
            if (isinstance(op, ast.Name) and op.id == f.name and f.parent is sc) or \
                    (isinstance(op, ast.Attribute) and op.attr == f.name and f.cls is not None and f.parent is None):
                return True
    sites = ctx.eff.call_sites.get(f.qname, [])
    return bool(sites) and all(_under_retry(ctx, caller, depth + 1, seen) for caller, _n in sites)


def r3(ctx: Ctx) -> None:
    ctx.rule("C20.R3", "retry discipline: every boto call of the backend and the range reader (except the conditional PUT) runs in "
             "a closure passed to with_s3_retry; permanent errors re-raise before any sleep; attempts are bounded", 12)
    for ci in [c2 for cname in ("S3StorageBackend", "S3RangeFile") for c2 in family(ctx, ctx.prog.cls(f"{SB}.{cname}"))]:
        for m in ci.methods.values():
            fns = [m] + list(m.nested.values())
            for f in fns:
                for n in ctx.cfg(f).calls():
                    c = n.callee
                    if c is None or c.kind != "prim" or not c.name.startswith("boto."):
                        continue
                    leaf = c.name.split(".", 1)[1]
                    if leaf in ("get_paginator",):
                        pass
                    if m.name == "write_file_cas":
                        in_loop = any(fr.kind == "loop" for fr in n.frames)
                        ctx.ob("C20.R3", f, "conditional PUT is not retried (by design)", n, f is m and not m.nested and not in_loop,
                               "a retried conditional PUT could conflict with its own first attempt"
                               + (" (the PUT sits in a hand-written retry loop)" if in_loop else ""), nontrivial=False)
                        continue
                    if m.name == "__init__":
                        continue
                    ctx.ob("C20.R3", f, f"boto {leaf} runs under with_s3_retry", n, _under_retry(ctx, f),
                           "a transient error on this request is masked within the retry budget (#39/#50)")
    rb = ctx.fn("s3_consistency.S3ConsistencyHandler.retry_with_backoff")
    g = ctx.cfg(rb)
    hs = [hn for hn in handler_nodes(ctx, rb) if "retryable_exceptions" in norm_text(hn.ast.type) if hn.ast.type is not None]  # type: ignore[union-attr]
    if not hs:
        raise AnalysisError("retryable handler vanished from retry_with_backoff")
    hn = hs[0]
    perm = [b for b in g.nodes if b.kind == "branch" and "is_permanent_s3_error" in b.text and in_handler(b, hn.ast)]  # type: ignore[arg-type]
    sleeps = [n for n in ctx.calls(rb, prim="time.sleep") if in_handler(n, hn.ast)]  # type: ignore[arg-type]
    ok = False
    for b in perm:
        t = edge_target(g, b, "true")
        if t is not None:
            reach = reachable_from(g, t, NORMAL)
            rs = [g.nodes[x] for x in reach if g.nodes[x].kind == "raise"]
            ok = bool(rs) and all(r.raised == "reraise" for r in rs) and not any(s.id in reach for s in sleeps)
        dom = ctx.dom(rb, ALL)
        ok = ok and all(b.id in dom[s.id] for s in sleeps)
    ctx.ob("C20.R3", rb, "permanent errors re-raise before any sleep", perm[0] if perm else None, ok and bool(sleeps),
           "credentials / permissions / missing bucket surface immediately")
    loops = [l for l in g.nodes if l.kind == "loop" and isinstance(l.ast, ast.For)]
    rsl = ctx.slicer(rb)
    ok = False
    if loops:
        it = loops[0].ast.iter  # type: ignore[union-attr]
        if isinstance(it, ast.Call) and (dotted(it.func) or "") == "range" and it.args:
            org = rsl.origins(it.args[-1] if len(it.args) < 3 else it.args[1], loops[0].id)
            ok = any(nm.endswith("max_retries") for nm in org["names"])
    ctx.ob("C20.R3", rb, "attempts are bounded by max_retries", loops[0] if loops else None, ok, "for attempt in range(self.max_retries + 1)")
    ok = False
    exh = []
    for b in g.nodes:
        if b.kind != "branch" or not in_handler(b, hn.ast) or b.id not in g.reachable():  # type: ignore[arg-type]
            continue
        ec = effective_compare(ctx, rb, b)
        if ec is None or len(ec[0].ops) != 1 or not isinstance(ec[0].ops[0], (ast.Lt, ast.LtE, ast.Gt, ast.GtE)):
            continue
        lo_, ro_ = rsl.origins(ec[0].left, ec[1]), rsl.origins(ec[0].comparators[0], ec[1])
        loop_l = any(g.nodes[x].kind == "loop" for x in lo_["nodes"])  # the attempt counter is the loop variable
        loop_r = any(g.nodes[x].kind == "loop" for x in ro_["nodes"])
        lim_r = any(nm.endswith("max_retries") for nm in ro_["names"]) and not loop_r and loop_l
        lim_l = any(nm.endswith("max_retries") for nm in lo_["names"]) and not loop_l and loop_r
        if lim_r == lim_l:
            continue
        is_lt = isinstance(ec[0].ops[0], (ast.Lt, ast.LtE))
        # attempt < max (budget left) on the true edge  <=>  (Lt and limit right) or (Gt and limit left)
        left_on_true = (is_lt and lim_r) or (not is_lt and lim_l)
        exhausted = edge_target(g, b, "false" if left_on_true else "true")
        exh.append(b)
        if exhausted is not None:
            reach = reachable_from(g, exhausted, NORMAL, avoid=[n.id for n in g.nodes if n.kind in ("loop", "loop_head")])
            rs = [g.nodes[x] for x in reach if g.nodes[x].kind == "raise"]
            ok = bool(rs) and all(r.raised == "reraise" for r in rs) and not any(s_.id in reach for s_ in sleeps)
    ctx.ob("C20.R3", rb, "the last failure is re-raised, never swallowed", exh[0] if exh else None, ok, "retry budget exhausted -> raise")
    others = [h for h in handler_nodes(ctx, rb) if h is not hn]
    ok = all(not (handler_exits(ctx, rb, h)["fallthrough"] or handler_exits(ctx, rb, h)["return"] or handler_exits(ctx, rb, h)["loop"]) for h in others)
    ctx.ob("C20.R3", rb, "non-retryable classes propagate", others[0] if others else None, ok, "except Exception: raise")
    ip = ctx.fn("s3_consistency.is_permanent_s3_error")
    m = ctx.prog.modules["datashard.s3_consistency"]
    codes = m.consts.get("PERMANENT_S3_ERROR_CODES")
    vals = [c.value for c in ast.walk(codes) if isinstance(c, ast.Constant)] if codes is not None else []
    rets = [n for n in ctx.cfg(ip).nodes if n.kind == "return" and n.id in ctx.cfg(ip).reachable()]
    okr = bool(rets)
    for r_ in rets:
        v = r_.ast.value  # type: ignore[union-attr]
        if isinstance(v, ast.Constant) and v.value is False:
            continue
        if isinstance(v, ast.Compare) and isinstance(v.ops[0], ast.In) and "PERMANENT_S3_ERROR_CODES" in norm_text(v.comparators[0]):
            continue
        okr = False
    ctx.ob("C20.R3", ip, "an error is permanent only by membership in PERMANENT_S3_ERROR_CODES", rets[-1] if rets else None, okr,
           "any broader classification (e.g. 'every 4xx') makes transient faults such as RequestTimeout/400, OperationAborted/409 or "
           "429 throttling surface after one attempt instead of being masked within the retry budget")
    ctx.ob("C20.R3", ip, "404 / NoSuchKey are not permanent (a just-written object may read as missing)", None,
           bool(vals) and "404" not in vals and "NoSuchKey" not in vals and "AccessDenied" in vals, f"{len(vals)} permanent codes", nontrivial=False)


def r7(ctx: Ctx, rid: str = "C20.R7") -> None:
    ctx.rule(rid, "backends are stateless: no method other than __init__ stores to an instance attribute (no size / path / listing "
             "cache that a write through another method - or another process - can leave stale)", 2)
    for ci in [c2 for cn in ("LocalStorageBackend", "S3StorageBackend") for c2 in family(ctx, ctx.prog.cls(f"{SB}.{cn}"))]:
        cname = ci.name
        if not ci.methods:
            continue  # a flavour that only combines its bases
        bad = []
        from .common import state_writes
        for m in ci.methods.values():
            if m.name == "__init__":
                continue
            for n, what in state_writes(ctx, m):
                bad.append(f"{m.file}:{n.lineno} {what} in `{n.text[:60]}`")
        ctx.ob(rid, ci.methods.get("__init__") or next(iter(ci.methods.values())), f"{cname} keeps no mutable per-instance state", None, not bad,
               "results always reflect the store (the other backend has no cache either)", witness=bad[:6] or None, text=cname)


def r4(ctx: Ctx) -> None:
    ctx.rule("C20.R4", "exists() falls back to a prefix listing only for keys ending in '/'", 1)
    impls = [c.methods["exists"] for c in family(ctx, ctx.prog.cls(SB + ".S3StorageBackend")) if "exists" in c.methods]
    for nf in [x for ex in impls for x in ([ex] + list(ex.nested.values()))]:
        g = ctx.cfg(nf)
        ls = ctx.calls(nf, prim="boto.list_objects_v2")
        brs = [b for b in g.nodes if b.kind == "branch" and "endswith('/')" in b.text]
        for l in ls:
            ok = False
            for b in brs:
                t, fl = edge_target(g, b, "true"), edge_target(g, b, "false")
                # cond(Not(x)) swaps edges: branch test text is `key.endswith('/')`
                if t is not None and l.id in reachable_from(g, t, NORMAL) and (fl is None or l.id not in reachable_from(g, fl, NORMAL)):
                    ok = True
            if not ok:
                # ... or short-circuit: `key.endswith('/') and <listing>` (the listing possibly inside a helper analysed in place)
                mine = [l.ast] + [fr.node for fr in l.frames if fr.kind == "inline"]
                for bo in [x for x in ast.walk(nf.node) if isinstance(x, ast.BoolOp) and isinstance(x.op, ast.And)]:
                    for i, opnd in enumerate(bo.values):
                        if i > 0 and any(any(y is c for y in ast.walk(opnd)) for c in mine) and any(
                                isinstance(e, ast.Call) and isinstance(e.func, ast.Attribute) and e.func.attr == "endswith"
                                and e.args and isinstance(e.args[0], ast.Constant) and e.args[0].value == "/" for e in bo.values[:i]):
                            ok = True
            ctx.ob("C20.R4", nf, "prefix listing only for directory-like keys", l, ok,
                   "existence of exact keys only: 'data/x.parquet' is not 'present' because objects exist under that name")
        if not ls:
            ctx.ob("C20.R4", nf, "no prefix fallback at all", None, True, "exists() is an exact head_object", nontrivial=False)


def r5(ctx: Ctx, rid: str = "C20.R5") -> None:
    ctx.rule(rid, "listing confinement: the prefix given to list_objects_v2 ends at a directory boundary on every path", 1)
    lf = ctx.prog.cls(SB + ".S3StorageBackend").methods["list_files"]
    g = ctx.cfg(lf)
    uses = []
    scopes = list(lf.nested.values()) + [lf]
    for nf in scopes:
        for n in ctx.cfg(nf).calls():
            pk = kwarg(n.ast, "Prefix")
            if pk is not None:
                uses.append((nf, n, pk))
    if not uses:
        any_list = next(((nf, c) for nf in scopes for c in ctx.cfg(nf).calls() if c.callee and c.callee.name.startswith("boto.list_objects")), None)
        for d in [x for x in ast.walk(lf.node) if isinstance(x, ast.Dict)]:
            for k, v in zip(d.keys, d.values):
                if isinstance(k, ast.Constant) and k.value == "Prefix" and any_list is not None:
                    uses.append((lf, any_list[1], v))
    if not uses:
        raise AnalysisError("no Prefix= found in S3 list_files")
    # listing completeness: pages are walked with the SDK paginator, or by following NextContinuationToken
    direct = [(nf, n) for nf in scopes for n in ctx.cfg(nf).calls() if n.callee and n.callee.name in ("boto.list_objects_v2", "boto.list_objects")]
    pag = [(nf, n) for nf in scopes for n in ctx.cfg(nf).calls() if n.callee and n.callee.name.endswith(".paginate")]
    if direct:
        consts = {c.value for nf, _n in direct for c in ast.walk(nf.node) if isinstance(c, ast.Constant) and isinstance(c.value, str)}
        okp = "NextContinuationToken" in consts
        ctx.ob(rid, lf, "a hand-written page loop follows NextContinuationToken", direct[0][1], okp,
               "list_objects_v2 returns at most 1000 keys per call; the token of the NEXT page is `NextContinuationToken` "
               "(`ContinuationToken` merely echoes the request): without it every listing is silently cut at 1000 keys - markers, "
               "manifests or metadata versions on later pages disappear from GC protection, reachability and recovery")
    else:
        ctx.ob(rid, lf, "pages are walked with the SDK paginator", pag[0][1] if pag else None, bool(pag),
               "get_paginator('list_objects_v2').paginate(...) returns every page")
    for nf, n, pk in uses:
        var = pk.id if isinstance(pk, ast.Name) else None
        ok = False
        detail = f"Prefix={norm_text(pk)}"
        if isinstance(pk, ast.BinOp) and isinstance(pk.op, ast.Add) and isinstance(pk.right, ast.Constant) and str(pk.right.value).endswith("/"):
            ok = True
        elif isinstance(pk, ast.JoinedStr) and pk.values and isinstance(pk.values[-1], ast.Constant) and str(pk.values[-1].value).endswith("/"):
            ok = True
        elif var is not None:
            # in the enclosing function: every path to the closure definition either appends '/', or passes the
            # already-terminated / empty-prefix edge of a test on the variable
            defn = [x for x in g.nodes if x.kind == "stmt" and isinstance(x.ast, ast.FunctionDef) and x.ast.name == nf.name]
            aug = [x for x in g.nodes if x.kind == "stmt" and (
                (isinstance(x.ast, ast.AugAssign) and isinstance(x.ast.target, ast.Name) and x.ast.target.id == var
                 and isinstance(x.ast.value, ast.Constant) and x.ast.value.value == "/")
                or (isinstance(x.ast, ast.Assign) and any(isinstance(t, ast.Name) and t.id == var for t in x.ast.targets)
                    and (norm_text(x.ast.value).endswith("+ '/'") or norm_text(x.ast.value).endswith("/'") and "rstrip" in norm_text(x.ast.value))))]
            ok_edges = set()
            for b in g.nodes:
                if b.kind != "branch" or b.ast is None or var not in names_in(b.ast):
                    continue
                if "endswith('/')" in b.text:
                    # cond() already resolved `not`: 'true' edge = ends with slash
                    for d, l in g.succ[b.id]:
                        if l == "true":
                            ok_edges.add((b.id, d))
                elif norm_text(b.ast) == var:
                    for d, l in g.succ[b.id]:
                        if l == "false":
                            ok_edges.add((b.id, d))  # empty prefix: the whole table root
            w = find_path(g, g.entry, [defn[0].id] if defn else [g.exit], avoid=[a.id for a in aug], labels=NORMAL,
                          edge_ok=lambda s, d, l: (s, d) not in ok_edges)
            ok = bool(aug) and w is None
            detail += f"; terminating assignments at lines {[a.lineno for a in aug]}; unterminated path: {w is not None}"
        ctx.ob(rid, lf, "listing prefix is separator-terminated", n, ok,
               detail + ("" if ok else ": a string-prefix match makes list_files('data') return 'data_old/...' and "
                         "list_files('metadata') return the version hint; the local backend returns neither (and GC would delete "
                         "data_old/* as orphans)"))


def _str_template(ctx: Ctx, outer: FunctionInfo, inner: FunctionInfo, e: ast.AST, depth: int = 0) -> Optional[str]:
    """A string-building expression as a template with {<expr>} holes: f-string, <const>.format(...), or a variable of the
    enclosing function with a single such definition."""
    if depth > 3:
        return None
    if isinstance(e, ast.Name):
        for fn in (inner, outer):
            defs = [x.value for x in ast.walk(fn.node) if isinstance(x, ast.Assign) and len(x.targets) == 1
                    and isinstance(x.targets[0], ast.Name) and x.targets[0].id == e.id]
            if len(defs) == 1:
                return _str_template(ctx, outer, inner, defs[0], depth + 1)
        return None
    if isinstance(e, ast.JoinedStr):
        return "".join(str(v.value) if isinstance(v, ast.Constant) else "{" + norm_text(v.value) + "}" for v in e.values)  # type: ignore[attr-defined]
    if isinstance(e, ast.Call) and isinstance(e.func, ast.Attribute) and e.func.attr == "format":
        base = ctx.prog.const_str(e.func.value, outer.module, outer)
        if base is None:
            return None
        out = base
        for k in e.keywords:
            if k.arg:
                out = out.replace("{" + k.arg + "}", "{\x00" + norm_text(k.value) + "}")
        for a in e.args:
            out = out.replace("{}", "{\x00" + norm_text(a) + "}", 1)
        return out.replace("\x00", "")
    if isinstance(e, ast.BinOp) and isinstance(e.op, ast.Mod) and isinstance(e.left, ast.Constant) and isinstance(e.left.value, str):
        args = e.right.elts if isinstance(e.right, ast.Tuple) else [e.right]
        out = e.left.value
        for a in args:
            out = re.sub(r"%[sd]", lambda _m: "{" + norm_text(a) + "}", out, count=1)
        return out
    return None


def r6(ctx: Ctx) -> None:
    ctx.rule("C20.R6", "range reader: reads are clamped to the object, only in-range bytes are requested, a negative seek / "
             "unknown whence raise", 5)
    rf = ctx.prog.cls(SB + ".S3RangeFile")
    for name in ("readinto", "readall"):
        m = rf.methods.get(name)
        if m is None:
            raise AnalysisError(f"S3RangeFile.{name} vanished")
        g = ctx.cfg(m)
        gr = ctx.calls(m, name="_get_range")
        brs = [b for b in g.nodes if b.kind == "branch" and "_pos" in b.text and "_size" in b.text]
        for c in gr:
            ok = False
            for b in brs:
                cmp_ = b.ast
                if not isinstance(cmp_, ast.Compare):
                    continue
                past = isinstance(cmp_.ops[0], (ast.GtE, ast.Gt)) and "_pos" in norm_text(cmp_.left)
                lab = "true" if past else "false"
                t = edge_target(g, b, lab)
                o = edge_target(g, b, "false" if past else "true")
                if t is not None and c.id not in reachable_from(g, t, NORMAL) and o is not None and c.id in reachable_from(g, o, NORMAL):
                    ok = True
            ctx.ob("C20.R6", m, f"{name}: no request at or past EOF", c, ok, "_get_range is only reachable when pos < size")
            last = c.ast.args[1] if isinstance(c.ast, ast.Call) and len(c.ast.args) > 1 else None
            sl = ctx.slicer(m)
            org = sl.origins(last, c.id)
            txt = " ".join(norm_text(e) for e in org["exprs"])
            ok2 = ("min(" in txt and "_size" in txt and "- 1" in txt) or norm_text(last) == "self._size - 1"
            ctx.ob("C20.R6", m, f"{name}: last requested byte <= size - 1", c, ok2, f"last = {norm_text(last)} <- {txt[:100]}")
    sk = rf.methods.get("seek")
    if sk is None:
        raise AnalysisError("S3RangeFile.seek vanished")
    g = ctx.cfg(sk)
    neg = [b for b in g.nodes if b.kind == "branch" and isinstance(b.ast, ast.Compare) and isinstance(b.ast.ops[0], ast.Lt)
           and isinstance(b.ast.comparators[0], ast.Constant) and b.ast.comparators[0].value == 0]
    ok = False
    for b in neg:
        t = edge_target(g, b, "true")
        if t is not None:
            reach = reachable_from(g, t, NORMAL)
            ok = any(g.nodes[x].kind == "raise" and g.nodes[x].raised == "ValueError" for x in reach) and g.exit not in reach
    dom = ctx.dom(sk, NORMAL)
    sets = [n for n in g.nodes if n.kind == "stmt" and isinstance(n.ast, ast.Assign) and norm_text(n.ast.targets[0]) == "self._pos"]
    ctx.ob("C20.R6", sk, "negative position raises before the position is stored", neg[0] if neg else None,
           ok and bool(sets) and all(any(b.id in dom[s.id] for b in neg) for s in sets), "a negative position is an error")
    ssl = ctx.slicer(sk)
    odd = []
    shown = []
    for st in sets:
        org = ssl.origins(st.ast.value, st.id)  # type: ignore[union-attr]
        shown += sorted({norm_text(e)[:40] for e in org["exprs"]})
        clamp = [c for c in org["calls"] if isinstance(c, ast.Call) and (dotted(c.func) or "") in ("max", "min", "abs")]
        cond = [e for x in org["exprs"] for e in ast.walk(x) if isinstance(e, ast.IfExp)]
        if clamp or cond:
            odd.append(st)
    ctx.ob("C20.R6", sk, "target position is plain arithmetic (no clamping that hides a negative position)", odd[0] if odd else (sets[0] if sets else None),
           bool(sets) and not odd, f"definitions of the target position: {shown[:6]}"
           + ("; a clamped position makes seek(-k, SEEK_END) past the start succeed where a local file raises" if odd else ""))
    rs = [n for n in g.nodes if n.kind == "raise" and n.raised == "ValueError"]
    whence_br = [b for b in g.nodes if b.kind == "branch" and "whence" in b.text]
    ok = len(whence_br) >= 3 and len(rs) >= 2
    if not ok:
        # table-driven form: the handler looked up for `whence` is None -> ValueError
        for r_ in rs:
            for pol, e, at in facts_at(ctx, sk, r_):
                if pol == "null" and isinstance(e, ast.Name) and "whence" in ssl.origins(e, at)["names"]:
                    ok = True
    ctx.ob("C20.R6", sk, "unknown whence raises", whence_br[-1] if whence_br else (rs[0] if rs else None), ok, "SET / CUR / END else ValueError")
    grf = rf.methods.get("_get_range")
    ok = False
    tmpl = None
    if grf is not None:
        pn = [p.name for p in grf.params if p.name != "self"]
        cands = list(grf.nested.values())
        # ... or a method of the class handed to the retry helper (functools.partial(self._get_range_once, first, last))
        for x in ast.walk(grf.node):
            if isinstance(x, ast.Attribute) and isinstance(x.value, ast.Name) and x.value.id == "self" and grf.cls is not None \
                    and x.attr in grf.cls.methods and grf.cls.methods[x.attr] is not grf and not ctx.prog.is_known(grf.cls.methods[x.attr]):
                cands.append(grf.cls.methods[x.attr])
        for nf in cands:
            pn_ = pn if nf.parent is grf else [p.name for p in nf.params if p.name != "self"]
            for n in ctx.cfg(nf).calls():
                rk = kwarg(n.ast, "Range")
                if rk is not None:
                    tmpl = _str_template(ctx, grf, nf, rk)
                    ok = len(pn_) >= 2 and tmpl == "bytes={%s}-{%s}" % (pn_[0], pn_[1])
    ctx.ob("C20.R6", grf or sk, "Range header = bytes=first-last", None, ok, f"exactly the clamped interval is requested (header template: {tmpl!r})")
