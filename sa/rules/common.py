"""Helpers shared by the per-property rule modules."""
from __future__ import annotations

import ast
from typing import Dict, Iterable, List, Optional, Sequence, Set, Tuple

from ..cfg import CFG, EXC, NORMAL, Frame, Node, handler_classes
from ..core import Ctx
from ..effects import STORAGE_READS, STORAGE_WRITES
from ..flow import ALL, find_path, names_in
from ..model import AnalysisError, FunctionInfo, dotted, norm_text


# ------------------------------------------------------------------ handlers
def handler_nodes(ctx: Ctx, f: FunctionInfo) -> List[Node]:
    g = ctx.cfg(f)
    seen = set()
    out = []
    for n in g.nodes:
        if n.kind == "handler" and id(n.ast) not in seen:
            seen.add(id(n.ast))
            out.append(n)
    return out


def in_handler(n: Node, h: ast.ExceptHandler) -> bool:
    return any(fr.kind == "try" and fr.part == "handler" and fr.handler is h for fr in n.frames)


def in_try_body(n: Node, t: ast.AST) -> bool:
    return any(fr.kind == "try" and fr.part == "body" and fr.node is t for fr in n.frames)


def handler_exits(ctx: Ctx, f: FunctionInfo, hn: Node) -> Dict[str, List[Node]]:
    """How control leaves a handler: {'raise': [...], 'fallthrough': [...first nodes outside...],
    'return': [...], 'loop': [...]} following NORMAL edges from the handler node."""
    g = ctx.cfg(f)
    h = hn.ast
    assert isinstance(h, ast.ExceptHandler)
    res: Dict[str, List[Node]] = {"raise": [], "fallthrough": [], "return": [], "loop": []}
    seen = {hn.id}
    st = [hn.id]
    while st:
        cur = st.pop()
        node = g.nodes[cur]
        if node.kind == "raise":
            res["raise"].append(node)
            continue
        for d, l in g.succ[cur]:
            if l not in NORMAL:
                continue
            dn = g.nodes[d]
            if in_handler(dn, h) or (dn.kind == "finally" and False):
                if d not in seen:
                    seen.add(d)
                    st.append(d)
                continue
            # leaving the handler
            if node.kind == "return":
                res["return"].append(node)
            elif l == "back" or (isinstance(node.ast, (ast.Continue, ast.Break))):
                res["loop"].append(node)
            else:
                res["fallthrough"].append(node)
    return res


def handler_always_raises(ctx: Ctx, f: FunctionInfo, hn: Node) -> bool:
    ex = handler_exits(ctx, f, hn)
    return bool(ex["raise"]) and not (ex["fallthrough"] or ex["return"] or ex["loop"])


def try_body_calls(ctx: Ctx, f: FunctionInfo, t: ast.AST) -> List[Node]:
    return [n for n in ctx.cfg(f).calls() if in_try_body(n, t)]


def callee_names(n: Node) -> List[str]:
    c = n.callee
    if c is None:
        return []
    if c.kind in ("func", "ctor"):
        return [t.name for t in c.funcs] or ([c.cls.name] if c.cls else [])
    return [c.name]


def guarded_names(ctx: Ctx, f: FunctionInfo, t: ast.AST) -> List[str]:
    """Sorted names of what a try body calls (role description of a handler, format independent)."""
    names: Set[str] = set()
    for n in try_body_calls(ctx, f, t):
        for nm in callee_names(n):
            if not nm.startswith(("logging.", "builtins.")):
                names.add(nm.split(".")[-1] if nm.startswith(("method.", "str.", "list.", "dict.", "set.", "bytes.")) else nm)
    return sorted(names)


def handler_key(ctx: Ctx, f: FunctionInfo, hn: Node) -> str:
    h = hn.ast
    assert isinstance(h, ast.ExceptHandler)
    t = hn.stmt
    return f"except({','.join(handler_classes(h))}) guarding [{','.join(guarded_names(ctx, f, t))}]"


# --------------------------------------------------------------- commit point
def hint_value(ctx: Ctx) -> str:
    mm = ctx.prog.cls("metadata_manager.MetadataManager")
    v = ctx.prog.const_str(mm.consts.get("HINT_PATH"), mm.module)
    if not v:
        raise AnalysisError("anchor vanished: MetadataManager.HINT_PATH constant")
    return v


def path_arg(n: Node) -> Optional[ast.AST]:
    a = n.ast
    if isinstance(a, ast.Call):
        if a.args:
            return a.args[0]
        for k in a.keywords:
            if k.arg in ("path", "file_path", "prefix"):
                return k.value
    return None


def hint_write_nodes(ctx: Ctx, f: FunctionInfo) -> List[Node]:
    """Storage write calls in f whose path argument is the version-hint constant."""
    hv = hint_value(ctx)
    out = []
    for n in ctx.cfg(f).calls():
        op = ctx.eff.storage_op(n)
        if op in STORAGE_WRITES:
            s = ctx.prog.const_str(path_arg(n), f.module, f)
            if s == hv:
                out.append(n)
    return out


def hint_writers(ctx: Ctx) -> List[FunctionInfo]:
    out = [f for f in ctx.prog.functions.values() if hint_write_nodes(ctx, f)]
    return out


def reaches_any(ctx: Ctx, f: FunctionInfo, n: Node, targets: Set[str]) -> bool:
    return ctx.eff.reaches_function(f, targets, n)


def normal_continuation(ctx: Ctx, f: FunctionInfo, start: Node) -> List[Node]:
    """Nodes executed after `start` completes normally, up to the function exit (NORMAL edges)."""
    g = ctx.cfg(f)
    seen: Set[int] = set()
    st = [d for d, l in g.succ[start.id] if l in NORMAL]
    out = []
    while st:
        c = st.pop()
        if c in seen:
            continue
        seen.add(c)
        out.append(g.nodes[c])
        for d, l in g.succ[c]:
            if l in NORMAL and d not in seen:
                st.append(d)
    return out


def escaping_after(ctx: Ctx, f: FunctionInfo, start: Node, stop_at: Optional[Set[int]] = None) -> List[Tuple[Node, List[str]]]:
    """Nodes on the normal continuation of `start` that may raise an exception which is not
    absorbed (caught without re-raise) inside f: [(node, classes)]."""
    bad = []
    for n in normal_continuation(ctx, f, start):
        if stop_at and n.id in stop_at:
            continue
        rs = ctx.eff.raises_at(f, n)
        if not rs:
            continue
        esc, caught = ctx.eff.propagate(f, rs, n.frames, record=False)
        if esc:
            bad.append((n, sorted(esc)))
            continue
        # caught: the catching handlers must not re-raise
        g = ctx.cfg(f)
        for h, _c in caught:
            hn = next((x for x in g.nodes if x.kind == "handler" and x.ast is h), None)
            if hn is not None and handler_exits(ctx, f, hn)["raise"]:
                bad.append((n, [f"re-raised by except {','.join(handler_classes(h))}"]))
                break
    return bad


def branch_nodes(ctx: Ctx, f: FunctionInfo, mention: str) -> List[Node]:
    return [n for n in ctx.cfg(f).nodes if n.kind == "branch" and n.ast is not None and mention in names_in(n.ast)
            or (n.kind == "branch" and n.ast is not None and mention in norm_text(n.ast))]


def edge_target(g: CFG, n: Node, label: str) -> Optional[int]:
    for d, l in g.succ[n.id]:
        if l == label:
            return d
    return None


def reachable_from(g: CFG, start: int, labels: Set[str] = NORMAL, avoid: Iterable[int] = ()) -> Set[int]:
    av = set(avoid)
    seen = {start}
    st = [start]
    while st:
        c = st.pop()
        for d, l in g.succ[c]:
            if l in labels and d not in seen and d not in av:
                seen.add(d)
                st.append(d)
    return seen


def kwarg(call: ast.AST, name: str, pos: Optional[int] = None) -> Optional[ast.AST]:
    if not isinstance(call, ast.Call):
        return None
    for k in call.keywords:
        if k.arg == name:
            return k.value
    if pos is not None and pos < len(call.args):
        return call.args[pos]
    return None


def is_const(e: Optional[ast.AST], value: object) -> bool:
    return isinstance(e, ast.Constant) and e.value is value


def loc(f: FunctionInfo, n: Optional[Node]) -> str:
    return f"{f.file}:{n.lineno if n is not None else f.lineno}"


def package_functions(ctx: Ctx, modules: Sequence[str]) -> List[FunctionInfo]:
    return [f for f in ctx.prog.functions.values() if f.module.short in modules]


def fold_str(ctx: Ctx, f: FunctionInfo, e: Optional[ast.AST], at: int, depth: int = 0) -> Optional[str]:
    """Constant-fold a path expression through module/class constants AND local single-definition
    variables (reaching definitions).  Unknown parts become \x00."""
    if e is None or depth > 6:
        return None
    s = ctx.prog.const_str(e, f.module, f)
    if s is not None and "\x00" not in s:
        return s
    g = ctx.cfg(f)
    if isinstance(e, ast.Name):
        defs = ctx.rd(f).reaching(at, e.id)
        vals = set()
        for d in defs:
            if d == g.entry:
                return None
            dn = g.nodes[d]
            from ..flow import rhs_of
            vals.add(fold_str(ctx, f, rhs_of(dn, e.id), d, depth + 1))
        if len(vals) == 1:
            return vals.pop()
        return None
    if isinstance(e, ast.JoinedStr):
        out = []
        for v in e.values:
            if isinstance(v, ast.Constant):
                out.append(str(v.value))
            elif isinstance(v, ast.FormattedValue):
                x = fold_str(ctx, f, v.value, at, depth + 1)
                out.append(x if x is not None else "\x00")
        return "".join(out)
    if isinstance(e, ast.BinOp) and isinstance(e.op, ast.Add):
        l, r = fold_str(ctx, f, e.left, at, depth + 1), fold_str(ctx, f, e.right, at, depth + 1)
        if l is None and r is None:
            return None
        return (l if l is not None else "\x00") + (r if r is not None else "\x00")
    return s


def cleanup_in_reraising_handler(ctx: Ctx, f: FunctionInfo, hn: Node) -> bool:
    """Is this handler part of best-effort cleanup nested inside an outer handler that re-raises on every path?"""
    g = ctx.cfg(f)
    for fr in reversed(hn.frames):
        if fr.kind == "try" and fr.part == "handler" and fr.handler is not None:
            outer = next((x for x in g.nodes if x.kind == "handler" and x.ast is fr.handler), None)
            if outer is not None and handler_always_raises(ctx, f, outer):
                return True
    return False


def nonnull_inline_return_edges(ctx: Ctx, f: FunctionInfo, target: Node) -> Set[Tuple[int, int]]:
    """Path-sensitivity for the commonest correlation an extracted helper introduces:

        x = self._helper(...)        # inlined; returns None on some paths, an object on others
        if x is None: <target>

    When `target` is only reachable through the true edge of a None-test on the helper's result, paths that leave the
    helper through a `return <non-None value>` are infeasible; the edges out of those return sites are returned so that a
    path query can exclude them.  A returned Name counts as possibly-None if any of its reaching definitions is None."""
    g = ctx.cfg(f)
    dom = ctx.dom(f, ALL)
    out: Set[Tuple[int, int]] = set()
    rd = ctx.rd(f)
    for b in g.nodes:
        if b.kind != "branch" or b.id not in dom[target.id]:
            continue
        t_ = b.ast
        var = None
        none_label = None
        if isinstance(t_, ast.Compare) and len(t_.ops) == 1 and isinstance(t_.left, ast.Name) \
                and isinstance(t_.comparators[0], ast.Constant) and t_.comparators[0].value is None:
            var, none_label = t_.left.id, ("true" if isinstance(t_.ops[0], (ast.Is, ast.Eq)) else "false")
        elif isinstance(t_, ast.Name):
            var, none_label = t_.id, "false"
        if var is None:
            continue
        nt = edge_target(g, b, none_label)
        ot = edge_target(g, b, "false" if none_label == "true" else "true")
        if nt is None or target.id not in reachable_from(g, nt, NORMAL) or (ot is not None and target.id in reachable_from(g, ot, NORMAL)):
            continue
        for d in rd.reaching(b.id, var):
            dn = g.nodes[d]
            if not (isinstance(dn.ast, ast.Assign) and isinstance(dn.ast.value, ast.Call)):
                continue
            for rexpr, rnode in g.inline_returns.get(id(dn.ast.value), []):
                maybe_none = rexpr is None or (isinstance(rexpr, ast.Constant) and rexpr.value is None)
                if isinstance(rexpr, ast.Name):
                    for d2 in rd.reaching(rnode, rexpr.id):
                        a2 = g.nodes[d2].ast
                        if d2 == g.entry or (isinstance(a2, (ast.Assign, ast.AnnAssign)) and (
                                (isinstance(a2.value, ast.Constant) and a2.value.value is None) or isinstance(a2.value, (ast.IfExp, ast.BoolOp)))):
                            maybe_none = True
                elif isinstance(rexpr, (ast.IfExp, ast.BoolOp)):
                    maybe_none = True
                if maybe_none and isinstance(rexpr, ast.Name):
                    # `if v: return v` / `if v is not None: return v`: non-None by the dominating test
                    for b2 in g.nodes:
                        if b2.kind != "branch" or b2.id not in dom[rnode]:
                            continue
                        t2 = b2.ast
                        lab = None
                        if isinstance(t2, ast.Name) and t2.id == rexpr.id:
                            lab = "true"
                        elif isinstance(t2, ast.Compare) and isinstance(t2.left, ast.Name) and t2.left.id == rexpr.id \
                                and isinstance(t2.comparators[0], ast.Constant) and t2.comparators[0].value is None:
                            lab = "true" if isinstance(t2.ops[0], (ast.IsNot, ast.NotEq)) else "false"
                        if lab is None:
                            continue
                        te, fe = edge_target(g, b2, lab), edge_target(g, b2, "false" if lab == "true" else "true")
                        if te is not None and rnode in reachable_from(g, te, NORMAL) and (fe is None or rnode not in reachable_from(g, fe, NORMAL)):
                            maybe_none = False
                if not maybe_none:
                    for dd, _l in g.succ[rnode]:
                        out.add((rnode, dd))
    return out


def top_function(f: FunctionInfo) -> FunctionInfo:
    while f.parent is not None:
        f = f.parent
    return f


def owner_tops(ctx: Ctx, f: FunctionInfo, depth: int = 0, seen: Optional[Set[str]] = None) -> List[FunctionInfo]:
    """The KNOWN top-level functions a construct inside `f` is attributed to: f's own top-level function when it existed
    when the rules were written, otherwise (a helper introduced later) the known functions that call it, transitively."""
    top = top_function(f)
    if ctx.prog.is_known(top):
        return [top]
    seen = seen if seen is not None else set()
    if top.qname in seen or depth > 4:
        return []
    seen.add(top.qname)
    out: List[FunctionInfo] = []
    for caller, _n in ctx.eff.call_sites.get(top.qname, []):
        for o in owner_tops(ctx, caller, depth + 1, seen):
            if o not in out:
                out.append(o)
    return out


def effective_compare(ctx: Ctx, f: FunctionInfo, b: Node):
    """The comparison a branch decides: the branch's own Compare, or - for `flag = a < b ... if flag:` - the Compare
    assigned to the flag when that assignment is its only reaching definition.  Returns (Compare, node id where its
    operands are evaluated) or None."""
    if b.kind != "branch" or b.ast is None:
        return None
    if isinstance(b.ast, ast.Compare):
        return b.ast, b.id
    if isinstance(b.ast, ast.Name):
        g = ctx.cfg(f)
        defs = ctx.rd(f).reaching(b.id, b.ast.id)
        if len(defs) == 1:
            d = g.nodes[next(iter(defs))]
            if d.kind == "stmt" and isinstance(d.ast, ast.Assign) and isinstance(d.ast.value, ast.Compare) \
                    and len(d.ast.targets) == 1 and isinstance(d.ast.targets[0], ast.Name):
                return d.ast.value, d.id
    return None


def str_consts(ctx: Ctx, f: FunctionInfo, e: Optional[ast.AST]) -> Set[str]:
    """String constants of an expression, following references to class / module level constants (NAME, self.NAME)."""
    out: Set[str] = set()
    if e is None:
        return out
    for x in ast.walk(e):
        if isinstance(x, ast.Constant) and isinstance(x.value, str):
            out.add(x.value)
        nm = x.id if isinstance(x, ast.Name) else (x.attr if isinstance(x, ast.Attribute) else None)
        if nm is None:
            continue
        top = f
        while top.parent is not None:
            top = top.parent
        for table in ((top.cls.consts if top.cls is not None else {}), f.module.consts):
            v = table.get(nm)
            if v is not None and isinstance(v, (ast.Tuple, ast.List, ast.Set, ast.Constant, ast.Call)):
                out |= {c.value for c in ast.walk(v) if isinstance(c, ast.Constant) and isinstance(c.value, str)}
    return out


def code_branches(ctx: Ctx, f: FunctionInfo, hn: Node):
    """Equality / membership dispatch inside a handler: yields (branch, codes, raises on the MATCH side only,
    raises on the OTHER side only, nodes on the match side only, nodes on the other side only)."""
    g = ctx.cfg(f)
    for b in g.nodes:
        if b.kind != "branch" or not in_handler(b, hn.ast) or b.id not in g.reachable():  # type: ignore[arg-type]
            continue
        ec = effective_compare(ctx, f, b)
        if ec is None or len(ec[0].ops) != 1:
            continue
        op = ec[0].ops[0]
        if isinstance(op, (ast.Eq, ast.In)):
            ml, ol = "true", "false"
        elif isinstance(op, (ast.NotEq, ast.NotIn)):
            ml, ol = "false", "true"
        else:
            continue
        mt, ot = edge_target(g, b, ml), edge_target(g, b, ol)
        mreach = reachable_from(g, mt, NORMAL) if mt is not None else set()
        oreach = reachable_from(g, ot, NORMAL) if ot is not None else set()
        m_only, o_only = mreach - oreach, oreach - mreach
        yield (b, str_consts(ctx, f, ec[0]),
               {g.nodes[x].raised for x in m_only if g.nodes[x].kind == "raise"},
               {g.nodes[x].raised for x in o_only if g.nodes[x].kind == "raise"}, m_only, o_only)


def facts_at(ctx: Ctx, f: FunctionInfo, n: Node) -> List[Tuple[str, ast.AST, int]]:
    """Conditions known on arrival at node n: [(polarity, expr, node where expr was evaluated)], polarity in
    'true' | 'false' | 'nonnull' | 'null'.  Sources: every branch that dominates n and one of whose edges excludes n.
    Boolean structure is unfolded (and / or / not, `x is None`), also through a flag variable with a single reaching
    definition whose operands are not re-assigned in between (`ok = a and b ... if ok:`)."""
    g = ctx.cfg(f)
    rd = ctx.rd(f)
    dom = ctx.dom(f, ALL)
    out: List[Tuple[str, ast.AST, int]] = []

    def same_operands(e: ast.AST, d: int, at: int) -> bool:
        return all(rd.reaching(d, nm) == rd.reaching(at, nm) for nm in names_in(e))

    def add(pol: str, e: ast.AST, at: int, depth: int = 0) -> None:
        out.append((pol, e, at))
        if depth > 6:
            return
        truthy = pol in ("true", "nonnull")
        if isinstance(e, ast.BoolOp):
            if truthy and isinstance(e.op, ast.And) and pol == "true":
                for v in e.values:
                    add("true", v, at, depth + 1)
            if pol == "false" and isinstance(e.op, ast.Or):
                for v in e.values:
                    add("false", v, at, depth + 1)
        elif isinstance(e, ast.UnaryOp) and isinstance(e.op, ast.Not):
            if pol == "true":
                add("false", e.operand, at, depth + 1)
            elif pol == "false":
                add("true", e.operand, at, depth + 1)
        elif isinstance(e, ast.Compare) and len(e.ops) == 1 and isinstance(e.comparators[0], ast.Constant) \
                and e.comparators[0].value is None and isinstance(e.ops[0], (ast.Is, ast.IsNot)) and pol in ("true", "false"):
            isnone = isinstance(e.ops[0], ast.Is) == (pol == "true")
            add("null" if isnone else "nonnull", e.left, at, depth + 1)
        elif isinstance(e, ast.Name):
            defs = rd.reaching(at, e.id)
            if len(defs) == 1:
                d = next(iter(defs))
                dn = g.nodes[d]
                if d != g.entry and dn.kind == "stmt" and isinstance(dn.ast, (ast.Assign, ast.AnnAssign)) \
                        and getattr(dn.ast, "value", None) is not None:
                    tg = dn.ast.targets if isinstance(dn.ast, ast.Assign) else [dn.ast.target]
                    if len(tg) == 1 and isinstance(tg[0], ast.Name) and same_operands(dn.ast.value, d, at):
                        add(pol, dn.ast.value, d, depth + 1)

    for b in g.nodes:
        if b.kind != "branch" or b.ast is None or b.id == n.id or b.id not in dom[n.id]:
            continue
        t, fl = edge_target(g, b, "true"), edge_target(g, b, "false")
        rt = reachable_from(g, t, NORMAL) if t is not None else set()
        rf = reachable_from(g, fl, NORMAL) if fl is not None else set()
        if n.id in rt and n.id not in rf:
            add("true", b.ast, b.id)
        elif n.id in rf and n.id not in rt:
            add("false", b.ast, b.id)
    return out


def null_edges(g: CFG, var: str) -> Set[Tuple[int, int]]:
    """CFG edges taken only when variable `var` is None (or falsy): `var is None` true, `var is not None` false,
    `if var` false."""
    out: Set[Tuple[int, int]] = set()
    for b in g.nodes:
        if b.kind != "branch" or b.ast is None:
            continue
        lab = None
        a = b.ast
        if isinstance(a, ast.Compare) and len(a.ops) == 1 and isinstance(a.left, ast.Name) and a.left.id == var \
                and isinstance(a.comparators[0], ast.Constant) and a.comparators[0].value is None:
            lab = "true" if isinstance(a.ops[0], (ast.Is, ast.Eq)) else ("false" if isinstance(a.ops[0], (ast.IsNot, ast.NotEq)) else None)
        elif isinstance(a, ast.Name) and a.id == var:
            lab = "false"
        if lab is not None:
            out |= {(b.id, d) for d, l in g.succ[b.id] if l == lab}
    return out


def eval3(e: ast.AST, atom) -> Optional[bool]:
    """Three-valued (Kleene) evaluation of a boolean expression: `atom(sub)` gives True / False for the sub-expressions
    whose value is fixed by the scenario under study and None for everything else."""
    v = atom(e)
    if v is not None:
        return v
    if isinstance(e, ast.BoolOp):
        vals = [eval3(x, atom) for x in e.values]
        if isinstance(e.op, ast.And):
            if any(x is False for x in vals):
                return False
            return True if all(x is True for x in vals) else None
        if any(x is True for x in vals):
            return True
        return False if all(x is False for x in vals) else None
    if isinstance(e, ast.UnaryOp) and isinstance(e.op, ast.Not):
        x = eval3(e.operand, atom)
        return None if x is None else (not x)
    if isinstance(e, ast.IfExp):
        t = eval3(e.test, atom)
        if t is True:
            return eval3(e.body, atom)
        if t is False:
            return eval3(e.orelse, atom)
        a, b = eval3(e.body, atom), eval3(e.orelse, atom)
        return a if a == b else None
    if isinstance(e, ast.Constant) and isinstance(e.value, bool):
        return e.value
    return None


def known_null_call(ctx: Ctx, f: FunctionInfo, n: Node, attr: str) -> bool:
    """On arrival at n, is the result of a `<x>.attr(...)` call known to be None (tested directly or through a variable)?"""
    return any(pol == "null" and isinstance(e, ast.Call) and isinstance(e.func, ast.Attribute) and e.func.attr == attr
               for pol, e, _at in facts_at(ctx, f, n))


def effective_test(ctx: Ctx, f: FunctionInfo, b: Node):
    """The expression a branch decides, looking through a flag variable with a single reaching definition.
    Returns (expr, node id where it is evaluated)."""
    if b.kind != "branch" or b.ast is None:
        return None
    if isinstance(b.ast, ast.Name):
        g = ctx.cfg(f)
        defs = ctx.rd(f).reaching(b.id, b.ast.id)
        if len(defs) == 1:
            d = g.nodes[next(iter(defs))]
            if d.kind == "stmt" and isinstance(d.ast, ast.Assign) and len(d.ast.targets) == 1 and isinstance(d.ast.targets[0], ast.Name) \
                    and isinstance(d.ast.value, (ast.Compare, ast.Call, ast.BoolOp, ast.UnaryOp)):
                return d.ast.value, d.id
    return b.ast, b.id
