"""Helpers shared by the per-property rule modules."""
from __future__ import annotations

import ast
import re
from typing import Dict, Iterable, List, Optional, Sequence, Set, Tuple

from ..cfg import CFG, EXC, NORMAL, Frame, Node, handler_classes
from ..core import Ctx
from ..effects import STORAGE_READS, STORAGE_WRITES
from ..flow import ALL, find_path, names_in
from ..model import AnalysisError, FunctionInfo, dotted, norm_text


# ------------------------------------------------------------------ handlers
def handler_nodes(ctx: Ctx, f: FunctionInfo) -> List[Node]:
    g = ctx.cfg(f)
    seen = set()
    out = []
    for n in g.nodes:
        if n.kind == "handler" and id(n.ast) not in seen:
            seen.add(id(n.ast))
            out.append(n)
    return out


def in_handler(n: Node, h: ast.ExceptHandler) -> bool:
    return any(fr.kind == "try" and fr.part == "handler" and fr.handler is h for fr in n.frames)


def in_try_body(n: Node, t: ast.AST) -> bool:
    return any(fr.kind == "try" and fr.part == "body" and fr.node is t for fr in n.frames)


def handler_exits(ctx: Ctx, f: FunctionInfo, hn: Node) -> Dict[str, List[Node]]:
    """How control leaves a handler: {'raise': [...], 'fallthrough': [...first nodes outside...],
    'return': [...], 'loop': [...]} following NORMAL edges from the handler node."""
    g = ctx.cfg(f)
    h = hn.ast
    assert isinstance(h, ast.ExceptHandler)
    res: Dict[str, List[Node]] = {"raise": [], "fallthrough": [], "return": [], "loop": []}
    seen = {hn.id}
    st = [hn.id]
    while st:
        cur = st.pop()
        node = g.nodes[cur]
        if node.kind == "raise":
            res["raise"].append(node)
            continue
        for d, l in g.succ[cur]:
            if l not in NORMAL:
                continue
            dn = g.nodes[d]
            if in_handler(dn, h) or (dn.kind == "finally" and False):
                if d not in seen:
                    seen.add(d)
                    st.append(d)
                continue
            # leaving the handler
            if node.kind == "return":
                res["return"].append(node)
            elif l == "back" or (isinstance(node.ast, (ast.Continue, ast.Break))):
                res["loop"].append(node)
            else:
                res["fallthrough"].append(node)
    return res


def handler_always_raises(ctx: Ctx, f: FunctionInfo, hn: Node) -> bool:
    ex = handler_exits(ctx, f, hn)
    return bool(ex["raise"]) and not (ex["fallthrough"] or ex["return"] or ex["loop"])


def try_body_calls(ctx: Ctx, f: FunctionInfo, t: ast.AST) -> List[Node]:
    return [n for n in ctx.cfg(f).calls() if in_try_body(n, t)]


def callee_names(n: Node) -> List[str]:
    c = n.callee
    if c is None:
        return []
    if c.kind in ("func", "ctor"):
        return [t.name for t in c.funcs] or ([c.cls.name] if c.cls else [])
    return [c.name]


def guarded_names(ctx: Ctx, f: FunctionInfo, t: ast.AST) -> List[str]:
    """Sorted names of what a try body calls (role description of a handler, format independent)."""
    names: Set[str] = set()
    for n in try_body_calls(ctx, f, t):
        c = n.callee
        # a helper analysed in place contributes the calls of its body, not its own name; pure path spelling adds nothing
        if c is not None and c.kind == "func" and c.funcs and all(ctx.prog.is_transparent(x) for x in c.funcs):
            continue
        for nm in callee_names(n):
            if nm in ("posixpath.join", "os.path.join", "posixpath.basename", "posixpath.dirname"):
                continue
            if not nm.startswith(("logging.", "builtins.")):
                names.add(nm.split(".")[-1] if nm.startswith(("method.", "str.", "list.", "dict.", "set.", "bytes.")) else nm)
    return sorted(names)


def handler_key(ctx: Ctx, f: FunctionInfo, hn: Node) -> str:
    h = hn.ast
    assert isinstance(h, ast.ExceptHandler)
    t = hn.stmt
    return f"except({','.join(handler_classes(h))}) guarding [{','.join(guarded_names(ctx, f, t))}]"


# --------------------------------------------------------------- commit point
def hint_value(ctx: Ctx) -> str:
    mm = ctx.prog.cls("metadata_manager.MetadataManager")
    v = ctx.prog.const_str(mm.consts.get("HINT_PATH"), mm.module)
    if not v:
        raise AnalysisError("anchor vanished: MetadataManager.HINT_PATH constant")
    return v


def path_arg(n: Node) -> Optional[ast.AST]:
    a = n.ast
    if isinstance(a, ast.Call):
        if a.args:
            return a.args[0]
        for k in a.keywords:
            if k.arg in ("path", "file_path", "prefix"):
                return k.value
    return None


def hint_write_nodes(ctx: Ctx, f: FunctionInfo) -> List[Node]:
    """Storage write calls in f whose path argument is the version-hint constant."""
    hv = hint_value(ctx)
    out = []
    for n in ctx.cfg(f).calls():
        op = ctx.eff.storage_op(n)
        if op in STORAGE_WRITES:
            s = ctx.prog.const_str(path_arg(n), f.module, f)
            if s == hv:
                out.append(n)
    return out


def hint_writers(ctx: Ctx) -> List[FunctionInfo]:
    """Functions whose CFG contains a write of the version hint.  A helper introduced later that is analysed in place (its
    write appears in its callers' CFGs) is represented by those callers, not by itself."""
    out = [f for f in ctx.prog.functions.values() if hint_write_nodes(ctx, f)
           and not (ctx.prog.is_transparent(f) and owner_tops(ctx, f))]
    return out


def reaches_any(ctx: Ctx, f: FunctionInfo, n: Node, targets: Set[str]) -> bool:
    return ctx.eff.reaches_function(f, targets, n)


def normal_continuation(ctx: Ctx, f: FunctionInfo, start: Node) -> List[Node]:
    """Nodes executed after `start` completes normally, up to the function exit (NORMAL edges)."""
    g = ctx.cfg(f)
    seen: Set[int] = set()
    st = [d for d, l in g.succ[start.id] if l in NORMAL]
    out = []
    while st:
        c = st.pop()
        if c in seen:
            continue
        seen.add(c)
        out.append(g.nodes[c])
        for d, l in g.succ[c]:
            if l in NORMAL and d not in seen:
                st.append(d)
    return out


def escaping_after(ctx: Ctx, f: FunctionInfo, start: Node, stop_at: Optional[Set[int]] = None) -> List[Tuple[Node, List[str]]]:
    """Nodes on the normal continuation of `start` that may raise an exception which is not
    absorbed (caught without re-raise) inside f: [(node, classes)]."""
    bad = []
    for n in normal_continuation(ctx, f, start):
        if stop_at and n.id in stop_at:
            continue
        rs = ctx.eff.raises_at(f, n)
        if not rs:
            continue
        esc, caught = ctx.eff.propagate(f, rs, n.frames, record=False)
        if esc:
            bad.append((n, sorted(esc)))
            continue
        # caught: the catching handlers must not re-raise
        g = ctx.cfg(f)
        for h, _c in caught:
            hn = next((x for x in g.nodes if x.kind == "handler" and x.ast is h), None)
            if hn is not None and handler_exits(ctx, f, hn)["raise"]:
                bad.append((n, [f"re-raised by except {','.join(handler_classes(h))}"]))
                break
    return bad


def branch_nodes(ctx: Ctx, f: FunctionInfo, mention: str) -> List[Node]:
    return [n for n in ctx.cfg(f).nodes if n.kind == "branch" and n.ast is not None and mention in names_in(n.ast)
            or (n.kind == "branch" and n.ast is not None and mention in norm_text(n.ast))]


def edge_target(g: CFG, n: Node, label: str) -> Optional[int]:
    for d, l in g.succ[n.id]:
        if l == label:
            return d
    return None


def reachable_from(g: CFG, start: int, labels: Set[str] = NORMAL, avoid: Iterable[int] = ()) -> Set[int]:
    av = set(avoid)
    seen = {start}
    st = [start]
    while st:
        c = st.pop()
        for d, l in g.succ[c]:
            if l in labels and d not in seen and d not in av:
                seen.add(d)
                st.append(d)
    return seen


def kwarg(call: ast.AST, name: str, pos: Optional[int] = None) -> Optional[ast.AST]:
    if not isinstance(call, ast.Call):
        return None
    for k in call.keywords:
        if k.arg == name:
            return k.value
    if pos is not None and pos < len(call.args):
        return call.args[pos]
    return None


def is_const(e: Optional[ast.AST], value: object) -> bool:
    return isinstance(e, ast.Constant) and e.value is value


def loc(f: FunctionInfo, n: Optional[Node]) -> str:
    return f"{f.file}:{n.lineno if n is not None else f.lineno}"


def package_functions(ctx: Ctx, modules: Sequence[str]) -> List[FunctionInfo]:
    return [f for f in ctx.prog.functions.values() if f.module.short in modules]


def fold_str(ctx: Ctx, f: FunctionInfo, e: Optional[ast.AST], at: int, depth: int = 0) -> Optional[str]:
    """Constant-fold a path expression through module/class constants AND local single-definition
    variables (reaching definitions).  Unknown parts become \x00."""
    if e is None or depth > 6:
        return None
    s = ctx.prog.const_str(e, f.module, f)
    if s is not None and "\x00" not in s:
        return s
    g = ctx.cfg(f)
    if isinstance(e, ast.Name):
        defs = ctx.rd(f).reaching(at, e.id)
        vals = set()
        for d in defs:
            if d == g.entry:
                return None
            dn = g.nodes[d]
            from ..flow import rhs_of
            vals.add(fold_str(ctx, f, rhs_of(dn, e.id), d, depth + 1))
        if len(vals) == 1:
            return vals.pop()
        return None
    if isinstance(e, ast.JoinedStr):
        out = []
        for v in e.values:
            if isinstance(v, ast.Constant):
                out.append(str(v.value))
            elif isinstance(v, ast.FormattedValue):
                x = fold_str(ctx, f, v.value, at, depth + 1)
                out.append(x if x is not None else "\x00")
        return "".join(out)
    if isinstance(e, ast.BinOp) and isinstance(e.op, ast.Add):
        l, r = fold_str(ctx, f, e.left, at, depth + 1), fold_str(ctx, f, e.right, at, depth + 1)
        if l is None and r is None:
            return None
        return (l if l is not None else "\x00") + (r if r is not None else "\x00")
    # "{}/{}.inflight".format(a, b)  /  "%s/%s" % (a, b)  /  "/".join([a, b])  /  os.path.join(a, b): the same text as an f-string
    if isinstance(e, ast.Call) and isinstance(e.func, ast.Attribute) and e.func.attr == "format" and not any(k.arg is None for k in e.keywords):
        tmpl = fold_str(ctx, f, e.func.value, at, depth + 1)
        if tmpl is not None and "\x00" not in tmpl:
            import string
            out_, auto = [], 0
            try:
                for lit, field, spec, conv in string.Formatter().parse(tmpl):
                    out_.append(lit)
                    if field is None:
                        continue
                    if spec or conv:
                        out_.append("\x00")
                        continue
                    if field == "":
                        arg = e.args[auto] if auto < len(e.args) else None
                        auto += 1
                    elif field.isdigit():
                        arg = e.args[int(field)] if int(field) < len(e.args) else None
                    else:
                        arg = next((k.value for k in e.keywords if k.arg == field), None)
                    x = fold_str(ctx, f, arg, at, depth + 1) if arg is not None else None
                    out_.append(x if x is not None else "\x00")
                return "".join(out_)
            except Exception:
                return s
    if isinstance(e, ast.BinOp) and isinstance(e.op, ast.Mod):
        tmpl = fold_str(ctx, f, e.left, at, depth + 1)
        if tmpl is not None and "\x00" not in tmpl:
            args = list(e.right.elts) if isinstance(e.right, ast.Tuple) else [e.right]
            parts = re.split(r"%[sdr]", tmpl)
            if len(parts) == len(args) + 1 and "%" not in "".join(parts).replace("%%", ""):
                out_ = [parts[0].replace("%%", "%")]
                for a_, p_ in zip(args, parts[1:]):
                    x = fold_str(ctx, f, a_, at, depth + 1)
                    out_.append(x if x is not None else "\x00")
                    out_.append(p_.replace("%%", "%"))
                return "".join(out_)
    if isinstance(e, ast.Call) and (dotted(e.func) or "") in ("os.path.join", "posixpath.join") and e.args and not e.keywords:
        xs = [fold_str(ctx, f, a_, at, depth + 1) for a_ in e.args]
        if any(x is not None for x in xs):
            return "/".join((x if x is not None else "\x00").rstrip("/") if i < len(xs) - 1 else (x if x is not None else "\x00") for i, x in enumerate(xs))
    if isinstance(e, ast.Call) and isinstance(e.func, ast.Attribute) and e.func.attr == "join" and isinstance(e.func.value, ast.Constant) \
            and isinstance(e.func.value.value, str) and len(e.args) == 1 and isinstance(e.args[0], (ast.List, ast.Tuple)):
        xs = [fold_str(ctx, f, a_, at, depth + 1) for a_ in e.args[0].elts]
        if any(x is not None for x in xs):
            return e.func.value.value.join(x if x is not None else "\x00" for x in xs)
    return s


def cleanup_in_reraising_handler(ctx: Ctx, f: FunctionInfo, hn: Node) -> bool:
    """Is this handler part of best-effort cleanup nested inside an outer handler that re-raises on every path?"""
    g = ctx.cfg(f)
    for fr in reversed(hn.frames):
        if fr.kind == "try" and fr.part == "handler" and fr.handler is not None:
            outer = next((x for x in g.nodes if x.kind == "handler" and x.ast is fr.handler), None)
            if outer is not None and handler_always_raises(ctx, f, outer):
                return True
    return False


def cleanup_in_flagged_finally(ctx: Ctx, f: FunctionInfo, hn: Node) -> bool:
    """Is this handler best-effort cleanup (a storage delete whose failure is only logged) that runs in a `finally` under
    `not <flag>` - the flag form of "cleanup in a handler that re-raises": the finally is entered with the original exception
    still travelling, the cleanup's own failure must not replace it?"""
    g = ctx.cfg(f)
    if not any(fr.kind == "try" and fr.part == "final" for fr in hn.frames):
        return False
    t = hn.stmt
    body_calls = try_body_calls(ctx, f, t)
    if not body_calls or not all((ctx.eff.storage_op(n) == "delete_file") or (n.callee is not None and n.callee.kind == "prim"
                                 and n.callee.name.startswith(("logging.", "builtins.", "os.path.exists", "os.remove"))) for n in body_calls):
        return False
    if any(ctx.eff.storage_op(n) for n in g.calls() if in_handler(n, hn.ast)):  # type: ignore[arg-type]
        return False
    flagged = False
    for pol, e, _a in facts_at(ctx, f, body_calls[0]):  # (what is known where the guarded cleanup starts)
        if (pol == "false" and isinstance(e, ast.Name)) or (pol == "true" and isinstance(e, ast.UnaryOp) and isinstance(e.op, ast.Not)
                                                           and isinstance(e.operand, ast.Name)):
            flagged = True
    return flagged


def nonnull_inline_return_edges(ctx: Ctx, f: FunctionInfo, target: Node) -> Set[Tuple[int, int]]:
    """Path-sensitivity for the commonest correlation an extracted helper introduces:

        x = self._helper(...)        # inlined; returns None on some paths, an object on others
        if x is None: <target>

    When `target` is only reachable through the true edge of a None-test on the helper's result, paths that leave the
    helper through a `return <non-None value>` are infeasible; the edges out of those return sites are returned so that a
    path query can exclude them.  A returned Name counts as possibly-None if any of its reaching definitions is None."""
    g = ctx.cfg(f)
    dom = ctx.dom(f, ALL)
    out: Set[Tuple[int, int]] = set()
    rd = ctx.rd(f)
    for b in g.nodes:
        if b.kind != "branch" or b.id not in dom[target.id]:
            continue
        t_ = b.ast
        var = None
        none_label = None
        if isinstance(t_, ast.Compare) and len(t_.ops) == 1 and isinstance(t_.left, ast.Name) \
                and isinstance(t_.comparators[0], ast.Constant) and t_.comparators[0].value is None:
            var, none_label = t_.left.id, ("true" if isinstance(t_.ops[0], (ast.Is, ast.Eq)) else "false")
        elif isinstance(t_, ast.Name):
            var, none_label = t_.id, "false"
        if var is None:
            continue
        nt = edge_target(g, b, none_label)
        ot = edge_target(g, b, "false" if none_label == "true" else "true")
        if nt is None or target.id not in reachable_from(g, nt, NORMAL) or (ot is not None and target.id in reachable_from(g, ot, NORMAL)):
            continue
        for d in rd.reaching(b.id, var):
            dn = g.nodes[d]
            if not (isinstance(dn.ast, ast.Assign) and isinstance(dn.ast.value, ast.Call)):
                continue
            for rexpr, rnode in g.inline_returns.get(id(dn.ast.value), []):
                maybe_none = rexpr is None or (isinstance(rexpr, ast.Constant) and rexpr.value is None)
                if isinstance(rexpr, ast.Name):
                    for d2 in rd.reaching(rnode, rexpr.id):
                        a2 = g.nodes[d2].ast
                        if d2 == g.entry or (isinstance(a2, (ast.Assign, ast.AnnAssign)) and (
                                (isinstance(a2.value, ast.Constant) and a2.value.value is None) or isinstance(a2.value, (ast.IfExp, ast.BoolOp)))):
                            maybe_none = True
                elif isinstance(rexpr, (ast.IfExp, ast.BoolOp)):
                    maybe_none = True
                if maybe_none and isinstance(rexpr, ast.Name):
                    # `if v: return v` / `if v is not None: return v`: non-None by the dominating test
                    for b2 in g.nodes:
                        if b2.kind != "branch" or b2.id not in dom[rnode]:
                            continue
                        t2 = b2.ast
                        lab = None
                        if isinstance(t2, ast.Name) and t2.id == rexpr.id:
                            lab = "true"
                        elif isinstance(t2, ast.Compare) and isinstance(t2.left, ast.Name) and t2.left.id == rexpr.id \
                                and isinstance(t2.comparators[0], ast.Constant) and t2.comparators[0].value is None:
                            lab = "true" if isinstance(t2.ops[0], (ast.IsNot, ast.NotEq)) else "false"
                        if lab is None:
                            continue
                        te, fe = edge_target(g, b2, lab), edge_target(g, b2, "false" if lab == "true" else "true")
                        if te is not None and rnode in reachable_from(g, te, NORMAL) and (fe is None or rnode not in reachable_from(g, fe, NORMAL)):
                            maybe_none = False
                if not maybe_none:
                    for dd, _l in g.succ[rnode]:
                        out.add((rnode, dd))
    return out


def top_function(f: FunctionInfo) -> FunctionInfo:
    while f.parent is not None:
        f = f.parent
    return f


def owner_tops(ctx: Ctx, f: FunctionInfo, depth: int = 0, seen: Optional[Set[str]] = None) -> List[FunctionInfo]:
    """The KNOWN top-level functions a construct inside `f` is attributed to: f's own top-level function when it existed
    when the rules were written, otherwise (a helper introduced later) the known functions that call it, transitively."""
    top = top_function(f)
    if ctx.prog.is_known(top):
        return [top]
    seen = seen if seen is not None else set()
    if top.qname in seen or depth > 4:
        return []
    seen.add(top.qname)
    out: List[FunctionInfo] = []
    for caller, _n in ctx.eff.call_sites.get(top.qname, []):
        for o in owner_tops(ctx, caller, depth + 1, seen):
            if o not in out:
                out.append(o)
    # ... and the functions that hand it on as a function value (`with_s3_retry(partial(self._delete_once, key), ...)`)
    for user in _value_mentions(ctx).get(top.qname, []):
        for o in owner_tops(ctx, user, depth + 1, seen):
            if o not in out:
                out.append(o)
    return out


def _value_mentions(ctx: Ctx) -> Dict[str, List[FunctionInfo]]:
    """{qualified name of a package function -> functions that mention it as a VALUE} (`self._helper` / `helper` not in call
    position): a method through `self.<name>` inside its own class family, a module-level function through its bare name
    inside its module."""
    cached = getattr(ctx, "_value_mentions", None)
    if cached is not None:
        return cached
    out: Dict[str, List[FunctionInfo]] = {}
    for f in ctx.prog.functions.values():
        if isinstance(f.node, ast.Lambda):
            continue
        called = {id(x.func) for x in ast.walk(f.node) if isinstance(x, ast.Call)}
        top = top_function(f)
        for x in ast.walk(f.node):
            if id(x) in called:
                continue
            t = None
            if isinstance(x, ast.Attribute) and isinstance(x.value, ast.Name) and x.value.id == "self" and isinstance(x.ctx, ast.Load) \
                    and top.cls is not None:
                for ci in [top.cls] + [c for c in ctx.prog.classes.values() if c is not top.cls and
                                       (top.cls.name in {(dotted(b) or "").split(".")[-1] for b in getattr(c.node, "bases", [])}
                                        or c.name in {(dotted(b) or "").split(".")[-1] for b in getattr(top.cls.node, "bases", [])})]:
                    if x.attr in ci.methods:
                        t = ci.methods[x.attr]
                        break
            elif isinstance(x, ast.Name) and isinstance(x.ctx, ast.Load):
                t = ctx.prog.functions.get(f"{f.module.name}.{x.id}")
            if t is not None and t is not f and f not in out.setdefault(t.qname, []):
                out[t.qname].append(f)
    ctx._value_mentions = out  # type: ignore[attr-defined]
    return out


PURE_ERRORS = {"ValueError", "TypeError", "OverflowError", "ArithmeticError", "ZeroDivisionError", "KeyError", "IndexError",
               "LookupError", "AttributeError", "UnicodeDecodeError", "UnicodeEncodeError", "UnicodeError"}


def pure_guard(ctx: Ctx, f: FunctionInfo, hn: Node) -> bool:
    """The handler guards a pure computation: its try body calls no function of the package, touches no storage / lock /
    file / network primitive (only builtins and string / number methods), and the handler names only value errors - there
    is no storage or parse failure it could hide."""
    cs = handler_classes(hn.ast)  # type: ignore[arg-type]
    if not cs or not set(c.split(".")[-1] for c in cs) <= PURE_ERRORS:
        return False
    for c in try_body_calls(ctx, f, hn.stmt):
        if ctx.eff.storage_op(c) or ctx.eff.lock_op(c) or ctx.eff.callees(f, c):
            return False
        cal = c.callee
        if cal is None or cal.kind != "prim":
            return False
        nm = cal.name
        if not (nm.startswith("builtins.") or nm.startswith(("str.", "bytes.", "int.", "float.", "dict.", "list.", "tuple.", "set.", "math."))
                or (nm.startswith("method.") and nm[7:] in ("get", "items", "keys", "values", "lower", "upper", "strip", "split",
                                                            "startswith", "endswith", "isdigit", "is_integer", "bit_length"))):
            return False
        if nm in ("builtins.open", "builtins.print", "builtins.input", "builtins.exec", "builtins.eval", "builtins.__import__"):
            return False
    return True


def judged_in_callers(ctx: Ctx, f: FunctionInfo) -> bool:
    """A later-introduced helper that is analysed in place inside at least one KNOWN function: its constructs are judged there.
    A new function nobody known calls (a new public API, a new entry point) is judged as a function of its own."""
    return ctx.prog.is_transparent(f) and bool(owner_tops(ctx, f))


MUTATORS = {"setdefault", "update", "append", "extend", "add", "pop", "clear", "move_to_end", "popitem", "insert", "remove", "discard",
            "appendleft", "put", "put_nowait", "__setitem__"}


def _load_index(ctx: Ctx) -> Dict[str, List[Tuple[FunctionInfo, ast.stmt, ast.AST]]]:
    """attribute / global name -> [(function, enclosing statement, Load node)] over the whole package (built once per Ctx)."""
    idx = getattr(ctx, "_attr_loads", None)
    if idx is not None:
        return idx
    idx = {}
    for fn in ctx.prog.functions.values():
        if isinstance(fn.node, ast.Lambda):
            continue
        body = fn.node.body if isinstance(fn.node.body, list) else []
        stack = [(st, st) for st in body]
        while stack:
            node, stmt = stack.pop()
            if isinstance(node, (ast.FunctionDef, ast.AsyncFunctionDef, ast.ClassDef, ast.Lambda)) and node is not stmt:
                continue  # nested functions are functions of their own
            if isinstance(node, ast.Attribute) and isinstance(node.ctx, ast.Load):
                idx.setdefault(node.attr, []).append((fn, stmt, node))
            elif isinstance(node, ast.Name) and isinstance(node.ctx, ast.Load):
                idx.setdefault(node.id, []).append((fn, stmt, node))
            for ch in ast.iter_child_nodes(node):
                stack.append((ch, ch if isinstance(ch, ast.stmt) else stmt))
    ctx._attr_loads = idx  # type: ignore[attr-defined]
    return idx


def report_only_state(ctx: Ctx, name: str) -> bool:
    """Is the attribute / module variable `name` write-only as far as the library's decisions go?  Every read of it is (i) part
    of a statement that updates it (`self.n += 1`, `self.s[k] = self.s.get(k, 0) + 1`, `self.s.update(...)`), (ii) an argument
    of a logging call, or (iii) inside a reporting function: `__repr__` / `__str__`, or a function introduced later that no
    known function calls (an accessor such as stats()).  Counters and timing records qualify; a cache does not (it is read
    back by the code that filled it)."""
    for fn, stmt, node in _load_index(ctx).get(name, []):
        if fn.name in ("__repr__", "__str__"):
            continue
        if not ctx.prog.is_known(top_function(fn)) and not owner_tops(ctx, fn):
            continue
        # (i) the statement itself stores to / mutates the same name
        updates = False
        if isinstance(stmt, (ast.Assign, ast.AugAssign, ast.AnnAssign)):
            tgs = stmt.targets if isinstance(stmt, ast.Assign) else [stmt.target]
            for t in tgs:
                b = t
                while isinstance(b, (ast.Subscript, ast.Attribute)):
                    if isinstance(b, ast.Attribute) and b.attr == name:
                        updates = True
                    b = b.value
                if isinstance(b, ast.Name) and b.id == name:
                    updates = True
        if isinstance(stmt, ast.Expr) and isinstance(stmt.value, ast.Call) and isinstance(stmt.value.func, ast.Attribute):
            if stmt.value.func.attr in MUTATORS and any(x is node for x in ast.walk(stmt.value.func.value)):
                updates = True
            if (dotted(stmt.value.func) or "").split(".")[0] in ("logger", "logging", "log", "_logger"):
                updates = True  # (ii) only logged
        if isinstance(stmt, (ast.With, ast.AsyncWith)) and any(any(x is node for x in ast.walk(it.context_expr)) for it in stmt.items):
            continue  # `with self._stats_lock:` - the lock guarding the counters
        if isinstance(stmt, ast.If) and any(x is node for x in ast.walk(stmt.test)) and not stmt.orelse and stmt.body and all(
                isinstance(b_, ast.Assign) and len(b_.targets) == 1 and isinstance(b_.targets[0], ast.Attribute) and b_.targets[0].attr == name
                for b_ in stmt.body):
            continue  # lazy initialisation: `if self.x is None: self.x = {...}`
        if not updates:
            return False
    return True


def state_writes(ctx: Ctx, f: FunctionInfo, keep_report_only: bool = False) -> List[Tuple[Node, str]]:
    """Sites where f (its nested functions and the helpers analysed in place included) writes state that outlives the call:
    a store to / in-place mutation of an attribute of `self` / `cls`, of a class of the package (`Table._cache[k] = v`), or of
    a module-level variable (`global X; X = ...`, `_REGISTRY[k] = v`, `_REGISTRY.setdefault(...)`)."""
    out: List[Tuple[Node, str]] = []
    classes = {c.name for c in ctx.prog.classes.values()}
    mod_globals = set(f.module.consts) | {n for st in f.module.tree.body if isinstance(st, (ast.Assign, ast.AnnAssign))
                                          for t in (st.targets if isinstance(st, ast.Assign) else [st.target]) if isinstance(t, ast.Name)
                                          for n in [t.id]}

    def root_of(e: ast.AST) -> Tuple[Optional[str], int]:
        depth = 0
        while isinstance(e, (ast.Attribute, ast.Subscript)):
            e = e.value
            depth += 1
        return (e.id if isinstance(e, ast.Name) else None), depth

    for fn in [f] + list(getattr(f, "nested", {}).values()):
        declared_global = {n for st in ast.walk(fn.node) if isinstance(st, ast.Global) for n in st.names}
        locals_ = {p.name for p in fn.params}
        g = ctx.cfg(fn)
        for n in g.nodes:
            if n.ast is None or n.id not in g.reachable():
                continue
            if n.kind == "stmt" and isinstance(n.ast, (ast.Assign, ast.AugAssign, ast.AnnAssign, ast.Delete)):
                tgs = n.ast.targets if isinstance(n.ast, (ast.Assign, ast.Delete)) else [n.ast.target]
                for t in tgs:
                    for tt in (t.elts if isinstance(t, (ast.Tuple, ast.List)) else [t]):
                        root, depth = root_of(tt)
                        if root is None:
                            continue
                        if depth == 0:
                            if root in declared_global:
                                out.append((n, f"module variable `{root}`"))
                            continue
                        if root in ("self", "cls") or root in classes:
                            out.append((n, f"`{norm_text(tt)[:50]}`"))
                        elif root in mod_globals and root not in locals_ and not ctx.rd(fn).reaching(n.id, root):
                            out.append((n, f"module-level `{norm_text(tt)[:50]}`"))
            if n.kind == "call" and isinstance(n.ast, ast.Call) and isinstance(n.ast.func, ast.Attribute) and n.ast.func.attr in MUTATORS:
                recv = n.ast.func.value
                root, depth = root_of(recv)
                if root is None:
                    continue
                if (root in ("self", "cls") or root in classes) and depth >= 1:
                    out.append((n, f"`{norm_text(n.ast)[:50]}`"))
                elif root in mod_globals and root not in locals_ and not ctx.rd(fn).reaching(n.id, root) and root not in ("logger",):
                    out.append((n, f"module-level `{norm_text(n.ast)[:50]}`"))
    if keep_report_only:
        return out

    def state_name(n: Node) -> Optional[str]:
        """the attribute (first one off self / cls / a class) or module variable a write site touches"""
        a = n.ast
        e: Optional[ast.AST] = None
        if isinstance(a, (ast.Assign, ast.Delete)):
            e = a.targets[0]
        elif isinstance(a, (ast.AugAssign, ast.AnnAssign)):
            e = a.target
        elif isinstance(a, ast.Call) and isinstance(a.func, ast.Attribute):
            e = a.func.value
        chain: List[str] = []
        while isinstance(e, (ast.Attribute, ast.Subscript)):
            if isinstance(e, ast.Attribute):
                chain.append(e.attr)
            e = e.value
        if isinstance(e, ast.Name):
            if e.id in ("self", "cls") or e.id in classes:
                return chain[-1] if chain else None
            return e.id
        return None

    return [(n, what) for n, what in out if not ((state_name(n) is not None) and report_only_state(ctx, state_name(n)))]  # type: ignore[arg-type]


def effective_compare(ctx: Ctx, f: FunctionInfo, b: Node):
    """The comparison a branch decides: the branch's own Compare, or - for `flag = a < b ... if flag:` - the Compare
    assigned to the flag when that assignment is its only reaching definition.  Returns (Compare, node id where its
    operands are evaluated) or None."""
    if b.kind != "branch" or b.ast is None:
        return None
    if isinstance(b.ast, ast.Compare):
        return b.ast, b.id
    if isinstance(b.ast, ast.Name):
        g = ctx.cfg(f)
        defs = ctx.rd(f).reaching(b.id, b.ast.id)
        if len(defs) == 1:
            d = g.nodes[next(iter(defs))]
            if d.kind == "stmt" and isinstance(d.ast, ast.Assign) and isinstance(d.ast.value, ast.Compare) \
                    and len(d.ast.targets) == 1 and isinstance(d.ast.targets[0], ast.Name):
                return d.ast.value, d.id
    return None


def str_consts(ctx: Ctx, f: FunctionInfo, e: Optional[ast.AST], at: Optional[int] = None) -> Set[str]:
    """String constants of an expression, following references to class / module level constants (NAME, self.NAME) and -
    when the node `at` is given - local variables all of whose reaching definitions are constants / constant collections
    (the parameter of a helper analysed in place, bound to the literal its caller passed)."""
    out: Set[str] = set()
    if e is None:
        return out
    top_ = f
    while top_.parent is not None:
        top_ = top_.parent
    pruned: Set[int] = set()
    for x in ast.walk(e):
        # `TABLE["head_object"]` with TABLE a module- / class-level dict of constants: exactly that entry, not the whole table
        if isinstance(x, ast.Subscript) and isinstance(x.slice, ast.Constant) and isinstance(x.value, (ast.Name, ast.Attribute)):
            tn = x.value.id if isinstance(x.value, ast.Name) else x.value.attr
            tbl = (top_.cls.consts.get(tn) if top_.cls is not None else None) or f.module.consts.get(tn)
            if isinstance(tbl, ast.Dict):
                for k_, v_ in zip(tbl.keys, tbl.values):
                    if isinstance(k_, ast.Constant) and k_.value == x.slice.value:
                        out |= {c.value for c in ast.walk(v_) if isinstance(c, ast.Constant) and isinstance(c.value, str)}
                pruned |= {id(y) for y in ast.walk(x)}
    for x in ast.walk(e):
        if id(x) in pruned:
            continue
        if isinstance(x, ast.Constant) and isinstance(x.value, str):
            out.add(x.value)
        nm = x.id if isinstance(x, ast.Name) else (x.attr if isinstance(x, ast.Attribute) else None)
        if nm is None:
            continue
        if at is not None and isinstance(x, ast.Name):
            g_ = ctx.cfg(f)
            for d in ctx.rd(f).reaching(at, x.id):
                dn = g_.nodes[d]
                if d != g_.entry and isinstance(dn.ast, ast.Assign) and len(dn.ast.targets) == 1 and isinstance(dn.ast.targets[0], ast.Name) \
                        and isinstance(dn.ast.value, (ast.Constant, ast.Tuple, ast.List, ast.Set, ast.Name, ast.Attribute)):
                    out |= str_consts(ctx, f, dn.ast.value, None if isinstance(dn.ast.value, ast.Constant) else d)
        top = f
        while top.parent is not None:
            top = top.parent
        tables = [(top.cls.consts if top.cls is not None else {}), f.module.consts]
        if at is not None:
            # the node belongs to a helper analysed in place: ITS class / module name the constant
            g_ = ctx.cfg(f)
            for fr in reversed(g_.nodes[at].frames):
                if fr.kind == "inline" and id(fr.node) in g_.inlined_calls:
                    t_ = g_.inlined_calls[id(fr.node)]
                    tables += [(t_.cls.consts if t_.cls is not None else {}), t_.module.consts]
        imp = f.module.imports.get(nm) if isinstance(x, ast.Name) else None
        if imp and "." in imp and not any(nm in tb for tb in tables):
            om = ctx.prog.modules.get(imp.rsplit(".", 1)[0])
            if om is not None and imp.rsplit(".", 1)[1] in om.consts:
                tables.append({nm: om.consts[imp.rsplit(".", 1)[1]]})  # `from .sibling import TABLE`
        for table in tables:
            v = table.get(nm)
            if v is not None and isinstance(v, (ast.Tuple, ast.List, ast.Set, ast.Constant, ast.Call)):
                out |= {c.value for c in ast.walk(v) if isinstance(c, ast.Constant) and isinstance(c.value, str)}
    return out


def code_branches(ctx: Ctx, f: FunctionInfo, hn: Node):
    """Equality / membership dispatch inside a handler: yields (branch, codes, raises on the MATCH side only,
    raises on the OTHER side only, nodes on the match side only, nodes on the other side only).  A short-circuit chain over
    one subject (`c == "a" or c == "b"`, `c != "a" and c != "b"`) is ONE dispatch with the union of its codes - the same
    decision as `c in ("a", "b")`."""
    g = ctx.cfg(f)
    items = {}
    for b in g.nodes:
        if b.kind != "branch" or not in_handler(b, hn.ast) or b.id not in g.reachable():  # type: ignore[arg-type]
            continue
        ec = effective_compare(ctx, f, b)
        if ec is None or len(ec[0].ops) != 1:
            continue
        op = ec[0].ops[0]
        if isinstance(op, (ast.Eq, ast.In)):
            ml, ol = "true", "false"
        elif isinstance(op, (ast.NotEq, ast.NotIn)):
            ml, ol = "false", "true"
        else:
            continue
        items[b.id] = (b, ec, edge_target(g, b, ml), edge_target(g, b, ol))
    absorbed = set()
    chains = []
    for bid in sorted(items):
        if bid in absorbed:
            continue
        b, ec, mt, ot = items[bid]
        codes = list(str_consts(ctx, f, ec[0], ec[1]))
        subj = norm_text(ec[0].left)
        cur_ot = ot
        while cur_ot in items and cur_ot not in absorbed and cur_ot != bid:
            nb, nec, nmt, not_ = items[cur_ot]
            if nmt != mt or norm_text(nec[0].left) != subj or len([1 for _p, lb in g.pred.get(cur_ot, []) if lb in NORMAL]) != 1:
                break
            absorbed.add(cur_ot)
            codes += list(str_consts(ctx, f, nec[0], nec[1]))
            cur_ot = not_
        chains.append((b, codes, mt, cur_ot))
    for b, codes, mt, ot in chains:
        mreach = reachable_from(g, mt, NORMAL) if mt is not None else set()
        oreach = reachable_from(g, ot, NORMAL) if ot is not None else set()
        m_only, o_only = mreach - oreach, oreach - mreach
        yield (b, _pair_codes(ctx, f, b, codes),
               {g.nodes[x].raised for x in m_only if g.nodes[x].kind == "raise"},
               {g.nodes[x].raised for x in o_only if g.nodes[x].kind == "raise"}, m_only, o_only)


def _pair_codes(ctx: Ctx, f: FunctionInfo, b: Node, codes):  # type: ignore[no-untyped-def]
    """`(MEANING, code) in TABLE` with TABLE a constant set of (meaning, code) pairs: the codes listed for that meaning."""
    ec = effective_compare(ctx, f, b)
    if ec is None:
        return codes
    cmp_, at = ec
    if not (isinstance(cmp_.ops[0], (ast.In, ast.NotIn)) and isinstance(cmp_.left, ast.Tuple) and len(cmp_.left.elts) == 2):
        return codes
    table = concrete_eval(ctx, f, cmp_.comparators[0], {}, at)
    if not isinstance(table, (tuple, frozenset)) or isinstance(table, PartialTuple) or not table \
            or not all(isinstance(r_, tuple) and len(r_) == 2 and all(isinstance(x, str) for x in r_) for r_ in table):
        return codes
    k0, k1 = (concrete_eval(ctx, f, x, {}, at) for x in cmp_.left.elts)
    if isinstance(k0, str) and not isinstance(k1, str):
        return sorted({c for m, c in table if m == k0})
    if isinstance(k1, str) and not isinstance(k0, str):
        return sorted({m for m, c in table if c == k1})
    return codes


def regex_flags(e: Optional[ast.AST]) -> Optional[int]:
    """Value of a flags expression of re.compile: `re.VERBOSE`, `re.X | re.I`, an int literal; None when not evaluable."""
    import re as _re
    if e is None:
        return 0
    if isinstance(e, ast.Constant) and isinstance(e.value, int):
        return e.value
    if isinstance(e, ast.Attribute) and isinstance(e.value, ast.Name) and e.value.id in ("re", "_re", "regex"):
        v = getattr(_re, e.attr, None)
        return int(v) if isinstance(v, (int, _re.RegexFlag)) else None
    if isinstance(e, ast.BinOp) and isinstance(e.op, ast.BitOr):
        a, b = regex_flags(e.left), regex_flags(e.right)
        return None if a is None or b is None else a | b
    return None


def compiled_regex(ctx: Ctx, f_or_mod, cdef: Optional[ast.AST]):  # type: ignore[no-untyped-def]
    """re.compile(<constant pattern>[, <flags>]) as a compiled pattern object (flags honoured: re.VERBOSE rewrites, named
    groups), or None.  Only the regex is compiled - nothing of the package is run."""
    import re as _re
    if not (isinstance(cdef, ast.Call) and (dotted(cdef.func) or "").split(".")[-1] == "compile" and cdef.args):
        return None
    mod = getattr(f_or_mod, "module", f_or_mod)
    v_ = module_const_value(ctx, mod, cdef.args[0])  # also a pattern assembled from named pieces (`"...{%d}" % _HEX_DIGITS`)
    pat = v_ if isinstance(v_, str) else None
    if pat is None:
        pat = ctx.prog.const_str(cdef.args[0], mod, f_or_mod if hasattr(f_or_mod, "module") else None)
    if pat is None and isinstance(cdef.args[0], ast.Constant) and isinstance(cdef.args[0].value, str):
        pat = cdef.args[0].value
    fl = regex_flags(cdef.args[1] if len(cdef.args) > 1 else kwarg(cdef, "flags"))
    if pat is None or fl is None:
        return None
    try:
        return _re.compile(pat, fl)
    except Exception:
        return None


def regex_group_is_digits(rx, group) -> bool:  # type: ignore[no-untyped-def]
    """Does capture group `group` (index or name) of the compiled pattern match decimal digits only (\\d+ / [0-9]+ / \\d{n,m})?"""
    try:
        import re._parser as sre_parse  # py311+
    except ImportError:  # pragma: no cover
        import sre_parse  # type: ignore
    try:
        tree = sre_parse.parse(rx.pattern, rx.flags)
    except Exception:
        return False
    if isinstance(group, str):
        group = rx.groupindex.get(group)
    if not isinstance(group, int) or group < 1:
        return False

    def find(items):  # type: ignore[no-untyped-def]
        for op, av in items:
            if str(op) == "SUBPATTERN":
                gid, _a, _b, sub = av
                if gid == group:
                    return list(sub)
                r = find(list(sub))
                if r is not None:
                    return r
            elif str(op) in ("MAX_REPEAT", "MIN_REPEAT"):
                r = find(list(av[2]))
                if r is not None:
                    return r
            elif str(op) == "BRANCH":
                for alt in av[1]:
                    r = find(list(alt))
                    if r is not None:
                        return r
        return None

    sub = find(list(tree))
    if not sub:
        return False

    def digits_only(items) -> bool:  # type: ignore[no-untyped-def]
        for op, av in items:
            so = str(op)
            if so in ("MAX_REPEAT", "MIN_REPEAT"):
                if av[0] < 1 or not digits_only(list(av[2])):
                    return False
            elif so == "IN":
                for o2, a2 in av:
                    if str(o2) == "CATEGORY" and "DIGIT" in str(a2) and "NOT" not in str(a2):
                        continue
                    if str(o2) == "RANGE" and chr(a2[0]) >= "0" and chr(a2[1]) <= "9":
                        continue
                    if str(o2) == "LITERAL" and chr(a2).isdigit():
                        continue
                    return False
            elif so == "LITERAL":
                if not chr(av).isdigit():
                    return False
            else:
                return False
        return True

    # \d also matches non-ASCII decimal digits for str patterns: int() accepts exactly those, so it still converts
    return digits_only(sub)


def record_field_arg(ctx: Ctx, call: Optional[ast.AST], attr: str) -> Optional[ast.AST]:
    """`Rec(a, b).second` -> b: the constructor argument bound to field `attr` of a NamedTuple / dataclass of the package
    (fields in declaration order, keywords by name; a class that defines __init__ / __new__ / a property of that name is
    not a plain record)."""
    if not isinstance(call, ast.Call) or any(k.arg is None for k in call.keywords) or any(isinstance(a, ast.Starred) for a in call.args):
        return None
    dn = (dotted(call.func) or "").split(".")[-1]
    for ci in ctx.prog.classes.values():
        if ci.name != dn:
            continue
        bases = {(dotted(b) or "").split(".")[-1] for b in getattr(ci.node, "bases", [])}
        decos = {(dotted(d.func if isinstance(d, ast.Call) else d) or "").split(".")[-1] for d in getattr(ci.node, "decorator_list", [])}
        if not ("NamedTuple" in bases or "dataclass" in decos) or any(m_ in ci.methods for m_ in ("__init__", "__new__", "__post_init__", attr)):
            return None
        fields = [st.target.id for st in getattr(ci.node, "body", []) if isinstance(st, ast.AnnAssign) and isinstance(st.target, ast.Name)]
        if attr not in fields:
            return None
        i = fields.index(attr)
        if i < len(call.args):
            return call.args[i]
        return next((k.value for k in call.keywords if k.arg == attr), None)
    return None


def record_positional_arg(ctx: Ctx, call: Optional[ast.AST], i: int, arity: int) -> Optional[ast.AST]:
    """Element i of `Rec(...)` seen as a tuple (NamedTuple of the package with exactly `arity` fields)."""
    if not isinstance(call, ast.Call):
        return None
    dn = (dotted(call.func) or "").split(".")[-1]
    for ci in ctx.prog.classes.values():
        if ci.name != dn:
            continue
        bases = {(dotted(b) or "").split(".")[-1] for b in getattr(ci.node, "bases", [])}
        fields = [st.target.id for st in getattr(ci.node, "body", []) if isinstance(st, ast.AnnAssign) and isinstance(st.target, ast.Name)]
        if "NamedTuple" not in bases or len(fields) != arity or not (0 <= i < arity):
            return None
        return record_field_arg(ctx, call, fields[i])
    return None


def facts_at(ctx: Ctx, f: FunctionInfo, n: Node) -> List[Tuple[str, ast.AST, int]]:
    """Conditions known on arrival at node n: [(polarity, expr, node where expr was evaluated)], polarity in
    'true' | 'false' | 'nonnull' | 'null'.  Sources: every branch that dominates n and one of whose edges excludes n.
    Boolean structure is unfolded (and / or / not, `x is None`), also through a flag variable with a single reaching
    definition whose operands are not re-assigned in between (`ok = a and b ... if ok:`)."""
    g = ctx.cfg(f)
    rd = ctx.rd(f)
    dom = ctx.dom(f, ALL)
    out: List[Tuple[str, ast.AST, int]] = []

    def same_operands(e: ast.AST, d: int, at: int) -> bool:
        return all(rd.reaching(d, nm) == rd.reaching(at, nm) for nm in names_in(e))

    def add(pol: str, e: ast.AST, at: int, depth: int = 0) -> None:
        out.append((pol, e, at))
        if depth > 6:
            return
        truthy = pol in ("true", "nonnull")
        if isinstance(e, ast.BoolOp):
            if truthy and isinstance(e.op, ast.And) and pol == "true":
                for v in e.values:
                    add("true", v, at, depth + 1)
            if pol == "false" and isinstance(e.op, ast.Or):
                for v in e.values:
                    add("false", v, at, depth + 1)
        elif isinstance(e, ast.UnaryOp) and isinstance(e.op, ast.Not):
            if pol == "true":
                add("false", e.operand, at, depth + 1)
            elif pol == "false":
                add("true", e.operand, at, depth + 1)
        elif isinstance(e, ast.Call) and isinstance(e.func, ast.Name) and e.func.id == "bool" and len(e.args) == 1 and not e.keywords \
                and pol in ("true", "false"):
            add(pol, e.args[0], at, depth + 1)  # bool(x) is true exactly when x is truthy
        elif isinstance(e, ast.Compare) and len(e.ops) == 1 and isinstance(e.comparators[0], ast.Constant) \
                and e.comparators[0].value is None and isinstance(e.ops[0], (ast.Is, ast.IsNot)) and pol in ("true", "false"):
            isnone = isinstance(e.ops[0], ast.Is) == (pol == "true")
            add("null" if isnone else "nonnull", e.left, at, depth + 1)
        elif isinstance(e, ast.Attribute) and isinstance(e.value, ast.Name) and pol in ("true", "false"):
            # `owner.is_us` with `owner = Rec(x, x == mine)` (directly or as the single result of a helper analysed in place)
            defs = rd.reaching(at, e.value.id)
            if len(defs) == 1:
                d = next(iter(defs))
                dn = g.nodes[d]
                if d != g.entry and dn.kind == "stmt" and isinstance(dn.ast, ast.Assign) and len(dn.ast.targets) == 1 \
                        and isinstance(dn.ast.targets[0], ast.Name):
                    v, vat = dn.ast.value, d
                    hops = 0
                    while isinstance(v, ast.Call) and id(v) in g.inline_returns and len(g.inline_returns[id(v)]) == 1 and hops < 4:
                        v, vat = g.inline_returns[id(v)][0]
                        hops += 1
                    arg = record_field_arg(ctx, v, e.attr)
                    if arg is not None and same_operands(arg, vat, at):
                        add(pol, arg, vat, depth + 1)
        elif isinstance(e, ast.Name):
            defs = rd.reaching(at, e.id)
            if len(defs) == 1:
                d = next(iter(defs))
                dn = g.nodes[d]
                if pol in ("nonnull", "true") and d != g.entry and dn.kind == "stmt" and isinstance(dn.ast, ast.Assign) \
                        and len(dn.ast.targets) == 1 and isinstance(dn.ast.targets[0], ast.Name) \
                        and isinstance(dn.ast.value, ast.Call) and id(dn.ast.value) in g.inline_returns and depth < 3:
                    # `x = self._helper()` analysed in place, every result but one is `None`: x is set exactly when the
                    # helper left through that return - what is known there is known here
                    rets = [(rv, rn) for rv, rn in g.inline_returns[id(dn.ast.value)] if rn in g.reachable()]
                    live = [(rv, rn) for rv, rn in rets if not (rv is None or (isinstance(rv, ast.Constant) and rv.value is None))]
                    if len(live) == 1 and len(rets) > 1:
                        for p2, e2, at2 in facts_at(ctx, f, g.nodes[live[0][1]]):
                            if same_operands(e2, at2, at) and not any(x is e2 for _p, x, _a in out):
                                out.append((p2, e2, at2))
                if d != g.entry and dn.kind == "stmt" and isinstance(dn.ast, (ast.Assign, ast.AnnAssign)) \
                        and getattr(dn.ast, "value", None) is not None:
                    tg = dn.ast.targets if isinstance(dn.ast, ast.Assign) else [dn.ast.target]
                    if len(tg) == 1 and isinstance(tg[0], ast.Name) and same_operands(dn.ast.value, d, at):
                        add(pol, dn.ast.value, d, depth + 1)
                    elif len(tg) == 1 and isinstance(tg[0], (ast.Tuple, ast.List)) and isinstance(dn.ast.value, ast.Call):
                        # `a, flag = helper(...)` with the helper analysed in place and a single `return x, y`
                        rets = g.inline_returns.get(id(dn.ast.value), [])
                        idx = next((i for i, t in enumerate(tg[0].elts) if isinstance(t, ast.Name) and t.id == e.id), None)
                        if idx is not None and len(rets) == 1 and isinstance(rets[0][0], ast.Tuple) and len(rets[0][0].elts) == len(tg[0].elts):
                            add(pol, rets[0][0].elts[idx], rets[0][1], depth + 1)

    for b in g.nodes:
        if b.kind != "branch" or b.ast is None or b.id == n.id or b.id not in dom[n.id]:
            continue
        t, fl = edge_target(g, b, "true"), edge_target(g, b, "false")
        # within the iteration of the loops enclosing the branch: arriving at n again in a LATER iteration re-evaluates b
        enclosing = {id(fr.node) for fr in b.frames if fr.kind == "loop"}
        heads = [x.id for x in g.nodes if x.kind in ("loop", "loop_head") and x.ast is not None and id(x.ast) in enclosing]
        heads.append(b.id)  # coming back to the branch itself (a `while` test) is a new decision
        rt = reachable_from(g, t, NORMAL, avoid=heads) if t is not None else set()
        rf = reachable_from(g, fl, NORMAL, avoid=heads) if fl is not None else set()
        if n.id in rt and n.id not in rf:
            add("true", b.ast, b.id)
        elif n.id in rf and n.id not in rt:
            add("false", b.ast, b.id)
    return out


def null_edges(g: CFG, var: str) -> Set[Tuple[int, int]]:
    """CFG edges taken only when variable `var` is None (or falsy): `var is None` true, `var is not None` false,
    `if var` false - also through a flag with a single definition (`present = var is not None ... if present:`)."""
    out: Set[Tuple[int, int]] = set()
    flag_defs: Dict[str, List[ast.AST]] = {}
    for n in g.nodes:
        if n.kind == "stmt" and isinstance(n.ast, ast.Assign) and len(n.ast.targets) == 1 and isinstance(n.ast.targets[0], ast.Name):
            flag_defs.setdefault(n.ast.targets[0].id, []).append(n.ast.value)
    for b in g.nodes:
        if b.kind != "branch" or b.ast is None:
            continue
        lab = None
        a = b.ast
        if isinstance(a, ast.Name) and a.id != var and len(flag_defs.get(a.id, [])) == 1 and isinstance(flag_defs[a.id][0], ast.Compare):
            a = flag_defs[a.id][0]
        if isinstance(a, ast.Compare) and len(a.ops) == 1 and dotted(a.left) == var \
                and isinstance(a.comparators[0], ast.Constant) and a.comparators[0].value is None:
            lab = "true" if isinstance(a.ops[0], (ast.Is, ast.Eq)) else ("false" if isinstance(a.ops[0], (ast.IsNot, ast.NotEq)) else None)
        elif isinstance(a, (ast.Name, ast.Attribute)) and dotted(a) == var:
            lab = "false"
        if lab is not None:
            out |= {(b.id, d) for d, l in g.succ[b.id] if l == lab}
    return out


def eval3(e: ast.AST, atom) -> Optional[bool]:
    """Three-valued (Kleene) evaluation of a boolean expression: `atom(sub)` gives True / False for the sub-expressions
    whose value is fixed by the scenario under study and None for everything else."""
    v = atom(e)
    if v is not None:
        return v
    if isinstance(e, ast.BoolOp):
        vals = [eval3(x, atom) for x in e.values]
        if isinstance(e.op, ast.And):
            if any(x is False for x in vals):
                return False
            return True if all(x is True for x in vals) else None
        if any(x is True for x in vals):
            return True
        return False if all(x is False for x in vals) else None
    if isinstance(e, ast.UnaryOp) and isinstance(e.op, ast.Not):
        x = eval3(e.operand, atom)
        return None if x is None else (not x)
    if isinstance(e, ast.IfExp):
        t = eval3(e.test, atom)
        if t is True:
            return eval3(e.body, atom)
        if t is False:
            return eval3(e.orelse, atom)
        a, b = eval3(e.body, atom), eval3(e.orelse, atom)
        return a if a == b else None
    if isinstance(e, ast.Constant) and isinstance(e.value, bool):
        return e.value
    return None


def known_null_call(ctx: Ctx, f: FunctionInfo, n: Node, attr: str) -> bool:
    """On arrival at n, is the result of a `<x>.attr(...)` call known to be None (tested directly or through a variable)?"""
    g = ctx.cfg(f)

    def is_attr_call(e: ast.AST, depth: int = 0) -> bool:
        if isinstance(e, ast.Call) and isinstance(e.func, ast.Attribute) and e.func.attr == attr:
            return True
        # a helper / new property analysed in place that hands the call's result on (`return self.metadata_manager.refresh()`)
        if isinstance(e, ast.Call) and id(e) in g.inline_returns and depth < 3:
            outs = g.inline_returns[id(e)]
            return bool(outs) and all(x is not None and is_attr_call(x, depth + 1) for x, _n in outs)
        return False
    return any(pol == "null" and is_attr_call(e) for pol, e, _at in facts_at(ctx, f, n))


def effective_test(ctx: Ctx, f: FunctionInfo, b: Node):
    """The expression a branch decides, looking through a flag variable with a single reaching definition.
    Returns (expr, node id where it is evaluated)."""
    if b.kind != "branch" or b.ast is None:
        return None
    if isinstance(b.ast, ast.Name):
        g = ctx.cfg(f)
        defs = ctx.rd(f).reaching(b.id, b.ast.id)
        if len(defs) == 1:
            d = g.nodes[next(iter(defs))]
            if d.kind == "stmt" and isinstance(d.ast, ast.Assign) and len(d.ast.targets) == 1 and isinstance(d.ast.targets[0], ast.Name) \
                    and isinstance(d.ast.value, (ast.Compare, ast.Call, ast.BoolOp, ast.UnaryOp)):
                return d.ast.value, d.id
    return b.ast, b.id


# ----------------------------------------------------------------- scenario evaluation (singleton abstract domain)
class _Unknown:
    def __repr__(self) -> str:
        return "UNKNOWN"


UNKNOWN = _Unknown()


class MatchVal:
    """Result of applying a compile-time-constant regex of the package to a scenario string."""
    def __init__(self, m) -> None:  # type: ignore[no-untyped-def]
        self.m = m

    def __bool__(self) -> bool:
        return True


class PurePathVal:
    """a pathlib.PurePosixPath built from a scenario string (lexical only)"""

    def __init__(self, p) -> None:  # type: ignore[no-untyped-def]
        self.p = p

    def __eq__(self, o: object) -> bool:
        return isinstance(o, PurePathVal) and self.p == o.p

    def __hash__(self) -> int:
        return hash(self.p)

    def __repr__(self) -> str:
        return f"PurePathVal({str(self.p)!r})"


class DictVal:
    """A dict display (local or module-level constant) in the scenario evaluator."""
    def __init__(self, node: ast.Dict) -> None:
        self.node = node


class FnRef:
    """A function value (lambda / function name / `operator.x`) taken out of a dispatch table."""
    def __init__(self, node: ast.AST) -> None:
        self.node = node

    def __repr__(self) -> str:
        return "fn:" + norm_text(self.node)[:30]


class PartialTuple(tuple):
    """A tuple display some of whose elements could not be evaluated (only membership hits are decidable)."""


class EnumVal:
    """A member of an Enum class of the package (identity = class + member name)."""
    def __init__(self, cls: str, name: str, value: object) -> None:
        self.cls, self.name, self.value = cls, name, value

    def __eq__(self, o: object) -> bool:
        return isinstance(o, EnumVal) and (o.cls, o.name) == (self.cls, self.name)

    def __hash__(self) -> int:
        return hash((self.cls, self.name))

    def __repr__(self) -> str:
        return f"{self.cls}.{self.name}"


def enum_member(ctx: Ctx, e: ast.AST) -> Optional[EnumVal]:
    if isinstance(e, ast.Attribute) and isinstance(e.value, ast.Name):
        for ci in ctx.prog.classes.values():
            if ci.name == e.value.id and e.attr in ci.consts and isinstance(ci.consts[e.attr], ast.Constant):
                return EnumVal(ci.name, e.attr, ci.consts[e.attr].value)
    return None


def concrete_eval(ctx: Ctx, f: FunctionInfo, e: Optional[ast.AST], env: Dict[str, object], at: int, depth: int = 0) -> object:
    """Evaluate an expression under a scenario `env` (variable -> concrete value).  Variables outside the scenario are looked
    up through a single reaching Assign; anything not understood is UNKNOWN.  Pure, total, no code is executed."""
    if e is None or depth > 12:
        return UNKNOWN
    ev = lambda x, a=at: concrete_eval(ctx, f, x, env, a, depth + 1)  # noqa: E731
    if ("atom", id(e)) in env:
        return env[("atom", id(e))]  # type: ignore[index]  # a scenario assumption about exactly this sub-expression
    if isinstance(e, ast.Constant):
        return e.value
    if isinstance(e, ast.Name):
        if e.id in env:
            return env[e.id]
        g = ctx.cfg(f)
        defs = ctx.rd(f).reaching(at, e.id)
        if len(defs) == 1:
            d = next(iter(defs))
            dn = g.nodes[d]
            if d != g.entry and dn.kind == "stmt" and isinstance(dn.ast, ast.Assign) and len(dn.ast.targets) == 1 \
                    and isinstance(dn.ast.targets[0], ast.Name):
                return concrete_eval(ctx, f, dn.ast.value, env, d, depth + 1)
            if d != g.entry and dn.kind == "stmt" and isinstance(dn.ast, ast.Assign) and len(dn.ast.targets) == 1 \
                    and isinstance(dn.ast.targets[0], ast.Name) and isinstance(dn.ast.value, ast.Dict):
                return DictVal(dn.ast.value)
            if d != g.entry and dn.kind == "stmt" and isinstance(dn.ast, ast.Assign) and len(dn.ast.targets) == 1 \
                    and isinstance(dn.ast.targets[0], (ast.Tuple, ast.List)):
                elts = dn.ast.targets[0].elts
                idx = next((i for i, t in enumerate(elts) if isinstance(t, ast.Name) and t.id == e.id), None)
                v = concrete_eval(ctx, f, dn.ast.value, env, d, depth + 1)
                if idx is not None and isinstance(v, (tuple, list)) and len(v) == len(elts):
                    return v[idx]
        if not defs and isinstance(f.module.consts.get(e.id), ast.Dict):
            return DictVal(f.module.consts[e.id])  # type: ignore[arg-type]
        if not defs and isinstance(f.module.consts.get(e.id), ast.Constant) and isinstance(f.module.consts[e.id].value, (str, int, float)) \
                and not isinstance(f.module.consts[e.id].value, bool):  # type: ignore[union-attr]
            return f.module.consts[e.id].value  # type: ignore[union-attr]  # a module-level named constant
        if not defs and e.id in f.module.consts and isinstance(f.module.consts[e.id], (ast.Set, ast.Tuple, ast.BinOp, ast.Call, ast.Name)) \
                and not (isinstance(f.module.consts[e.id], ast.Call) and dotted(f.module.consts[e.id].func) in ("float", "re.compile")) and depth < 10:
            v_ = concrete_eval(ctx, f, f.module.consts[e.id], {}, ctx.cfg(f).entry, depth + 1)  # a set / tuple / union of named constants
            if v_ is not UNKNOWN:
                return v_
        if not defs and e.id not in f.module.consts and e.id in f.module.imports and depth < 10:
            # a constant imported from a sibling module (`from .storage_backend import ENV_TRUE_VALUES`)
            tgt = f.module.imports[e.id]
            om = ctx.prog.modules.get(tgt.rsplit(".", 1)[0]) if "." in tgt else None
            if om is not None and tgt.rsplit(".", 1)[1] in om.consts:
                anyf = next((x for x in ctx.prog.functions.values() if x.module is om and not isinstance(x.node, ast.Lambda)), None)
                if anyf is not None:
                    v_ = concrete_eval(ctx, anyf, ast.Name(id=tgt.rsplit(".", 1)[1], ctx=ast.Load()), {}, ctx.cfg(anyf).entry, depth + 1)
                    if v_ is not UNKNOWN:
                        return v_
        if not defs and isinstance(f.module.consts.get(e.id), ast.Call) and dotted(f.module.consts[e.id].func) == "float" \
                and len(f.module.consts[e.id].args) == 1 and isinstance(f.module.consts[e.id].args[0], ast.Constant) \
                and isinstance(f.module.consts[e.id].args[0].value, str):  # type: ignore[union-attr]
            try:
                return float(f.module.consts[e.id].args[0].value)  # type: ignore[union-attr]  # _UNKNOWN = float("nan") / float("inf")
            except ValueError:
                return UNKNOWN
        return UNKNOWN
    if isinstance(e, ast.Attribute):
        dn_ = dotted(e)
        if dn_ and dn_ in env:
            return env[dn_]
        em = enum_member(ctx, e)
        if em is not None:
            return em
        if isinstance(e.value, ast.Name) and e.value.id not in env:
            # `storage = self.storage` ... `storage.supports_cas`: the scenario names the attribute through the aliased object
            g_ = ctx.cfg(f)
            defs_ = ctx.rd(f).reaching(at, e.value.id)
            if len(defs_) == 1 and next(iter(defs_)) != g_.entry:
                dn_ = g_.nodes[next(iter(defs_))]
                if dn_.kind == "stmt" and isinstance(dn_.ast, ast.Assign) and len(dn_.ast.targets) == 1 and isinstance(dn_.ast.targets[0], ast.Name):
                    base_txt = dotted(dn_.ast.value)
                    if base_txt and (base_txt + "." + e.attr) in env:
                        return env[base_txt + "." + e.attr]
        if e.attr == "hex" and isinstance(e.value, ast.Call) and (dotted(e.value.func) or "").split(".")[-1] == "uuid4" and "uuid4().hex" in env:
            return env["uuid4().hex"]  # scenario: the 32 hex digits of a random UUID
        base = ev(e.value)
        if isinstance(base, EnumVal) and e.attr == "value":
            return base.value
        if isinstance(base, EnumVal) and e.attr == "name":
            return base.name
        import datetime as _dt
        if isinstance(base, _dt.timedelta) and e.attr in ("days", "seconds", "microseconds"):
            return getattr(base, e.attr)
        if isinstance(base, PurePathVal) and e.attr in ("parts", "name", "suffix", "stem"):
            return getattr(base.p, e.attr)
        if isinstance(base, PurePathVal) and e.attr == "parent":
            return PurePathVal(base.p.parent)
        if isinstance(base, PurePathVal) and e.attr == "parents":
            return tuple(PurePathVal(x_) for x_ in base.p.parents)
        if dn_ in ("os.sep", "os.path.sep", "posixpath.sep"):
            return "/"
        return UNKNOWN
    if isinstance(e, ast.IfExp):
        t = ev(e.test)
        if t is UNKNOWN:
            a, b = ev(e.body), ev(e.orelse)
            return a if (a is not UNKNOWN and a == b) else UNKNOWN
        return ev(e.body) if t else ev(e.orelse)
    if isinstance(e, ast.UnaryOp) and isinstance(e.op, ast.Not):
        v = ev(e.operand)
        return UNKNOWN if v is UNKNOWN else (not v)
    if isinstance(e, ast.BoolOp):
        is_and = isinstance(e.op, ast.And)
        unknown = False
        last: object = is_and
        for x in e.values:
            v = ev(x)
            if v is UNKNOWN:
                unknown = True
                continue
            if is_and and not v:
                return v
            if not is_and and v:
                return v
            last = v
        return UNKNOWN if unknown else last
    if isinstance(e, ast.Compare) and len(e.ops) == 1:
        a, b = ev(e.left), ev(e.comparators[0])
        # NaN (the "unknown time" sentinel) is unordered: every ordering / equality test is False whatever the other side is
        if any(isinstance(x, float) and x != x for x in (a, b)) and isinstance(e.ops[0], (ast.Lt, ast.LtE, ast.Gt, ast.GtE, ast.Eq, ast.NotEq)):
            return isinstance(e.ops[0], ast.NotEq)
        if a is UNKNOWN or b is UNKNOWN:
            return UNKNOWN
        if isinstance(a, PartialTuple) or (isinstance(b, PartialTuple) and not isinstance(e.ops[0], (ast.In, ast.NotIn))):
            return UNKNOWN
        op = e.ops[0]
        try:
            if isinstance(op, (ast.Lt, ast.LtE, ast.Gt, ast.GtE)) and isinstance(a, (int, float)) and isinstance(b, (int, float)):
                return {ast.Lt: a < b, ast.LtE: a <= b, ast.Gt: a > b, ast.GtE: a >= b}[type(op)]
            if isinstance(op, ast.Eq):
                return a == b
            if isinstance(op, ast.NotEq):
                return a != b
            if isinstance(op, ast.Is):
                return (a == b) if isinstance(a, EnumVal) or isinstance(b, EnumVal) or a is None or b is None else UNKNOWN
            if isinstance(op, ast.IsNot):
                return (a != b) if isinstance(a, EnumVal) or isinstance(b, EnumVal) or a is None or b is None else UNKNOWN
            if isinstance(op, (ast.In, ast.NotIn)):
                if isinstance(b, PartialTuple):
                    hit = any(x is not UNKNOWN and x == a for x in b)
                    if not hit:
                        return UNKNOWN
                    return isinstance(op, ast.In)
                res = a in b  # type: ignore[operator]
                return res if isinstance(op, ast.In) else not res
        except Exception:
            return UNKNOWN
        return UNKNOWN
    if isinstance(e, (ast.Tuple, ast.List, ast.Set)):
        vals = [ev(x) for x in e.elts]
        return PartialTuple(vals) if any(v is UNKNOWN for v in vals) else tuple(vals)
    if isinstance(e, ast.Subscript):
        v = ev(e.value)
        if isinstance(v, DictVal):
            key = ev(e.slice)
            for k, val in zip(v.node.keys, v.node.values):
                if k is not None and key is not UNKNOWN and ev(k) == key:
                    return FnRef(val) if isinstance(val, (ast.Lambda, ast.Name, ast.Attribute)) else ev(val)
            return UNKNOWN
        if isinstance(v, dict):  # a scenario record ({"Key": ...})
            key = ev(e.slice)
            return v[key] if key is not UNKNOWN and isinstance(key, (str, int)) and key in v else UNKNOWN
        if isinstance(v, (tuple, list, str)) and not isinstance(v, PartialTuple):
            if isinstance(e.slice, ast.Slice):
                lo = ev(e.slice.lower) if e.slice.lower is not None else None
                hi = ev(e.slice.upper) if e.slice.upper is not None else None
                if lo is UNKNOWN or hi is UNKNOWN or e.slice.step is not None:
                    return UNKNOWN
                try:
                    return v[lo:hi]  # type: ignore[misc]
                except Exception:
                    return UNKNOWN
            i = ev(e.slice)
            if isinstance(i, int) and not isinstance(i, bool) and -len(v) <= i < len(v):
                return v[i]
        return UNKNOWN
    if isinstance(e, ast.UnaryOp) and isinstance(e.op, ast.USub):
        v = ev(e.operand)
        return -v if isinstance(v, (int, float)) and not isinstance(v, bool) else UNKNOWN
    if isinstance(e, ast.BinOp) and isinstance(e.op, ast.Add):
        a, b = ev(e.left), ev(e.right)
        if isinstance(a, str) and isinstance(b, str):
            return a + b
        if isinstance(a, (int, float)) and isinstance(b, (int, float)) and not isinstance(a, bool) and not isinstance(b, bool):
            return a + b
        if isinstance(a, tuple) and isinstance(b, tuple) and not isinstance(a, PartialTuple) and not isinstance(b, PartialTuple):
            return a + b  # `ENV_TRUE_VALUES + ("on",)`
        return UNKNOWN
    if isinstance(e, ast.BinOp) and isinstance(e.op, ast.Mod):
        a, b = ev(e.left), ev(e.right)
        if isinstance(a, str) and (isinstance(b, (str, int)) or (isinstance(b, tuple) and not isinstance(b, PartialTuple)
                                                                 and all(isinstance(x, (str, int)) for x in b))) and not isinstance(b, bool):
            try:
                return a % b
            except Exception:
                return UNKNOWN
        return UNKNOWN
    if isinstance(e, ast.BinOp) and isinstance(e.op, ast.Sub):
        a, b = ev(e.left), ev(e.right)
        if isinstance(a, (int, float)) and isinstance(b, (int, float)) and not isinstance(a, bool) and not isinstance(b, bool):
            return a - b
        return UNKNOWN
    if isinstance(e, ast.BinOp) and isinstance(e.op, (ast.Mult, ast.FloorDiv, ast.Div, ast.Pow, ast.LShift)):
        a, b = ev(e.left), ev(e.right)
        if isinstance(a, (int, float)) and isinstance(b, (int, float)) and not isinstance(a, bool) and not isinstance(b, bool):
            try:
                if isinstance(e.op, ast.Mult):
                    return a * b
                if isinstance(e.op, ast.FloorDiv):
                    return a // b
                if isinstance(e.op, ast.Div):
                    return a / b
                if isinstance(e.op, ast.Pow) and isinstance(b, int) and abs(b) <= 64:
                    return a ** b
                if isinstance(e.op, ast.LShift) and isinstance(a, int) and isinstance(b, int) and 0 <= b <= 64:
                    return a << b
            except Exception:
                return UNKNOWN
        return UNKNOWN
    if isinstance(e, ast.Call) and isinstance(e.func, ast.Name) and e.func.id == "range" and 1 <= len(e.args) <= 3 and not e.keywords:
        rv = [ev(x) for x in e.args]
        if all(isinstance(x, int) and not isinstance(x, bool) for x in rv):
            try:
                r0 = range(*rv)  # type: ignore[arg-type]
            except Exception:
                return UNKNOWN
            return tuple(r0) if len(r0) <= 64 else UNKNOWN
        return UNKNOWN
    if isinstance(e, ast.Call) and isinstance(e.func, ast.Name) and e.func.id == "zip" and e.args and not e.keywords \
            and not any(isinstance(a_, ast.Starred) for a_ in e.args):
        # zip of finite evaluable sequences and ENDLESS generators of the package (`while True: yield ...` with no way out):
        # the length is the shortest finite one, the endless streams contribute unknown elements
        cols: List[object] = []
        for a_ in e.args:
            v_ = ev(a_)
            if isinstance(v_, tuple) and not isinstance(v_, PartialTuple):
                cols.append(v_)
            elif isinstance(a_, ast.Call) and _endless_generator_call(ctx, f, a_):
                cols.append(None)
            else:
                return UNKNOWN
        fin = [c_ for c_ in cols if c_ is not None]
        if not fin:
            return UNKNOWN
        n_ = min(len(c_) for c_ in fin)  # type: ignore[arg-type]
        return tuple(tuple(UNKNOWN if c_ is None else c_[i_] for c_ in cols) for i_ in range(n_))  # type: ignore[index]
    if isinstance(e, ast.JoinedStr):
        out = []
        for part in e.values:
            if isinstance(part, ast.Constant):
                out.append(str(part.value))
            elif isinstance(part, ast.FormattedValue) and part.format_spec is None and part.conversion == -1:
                v = ev(part.value)
                if not isinstance(v, (str, int)) or isinstance(v, bool):
                    return UNKNOWN
                out.append(str(v))
            else:
                return UNKNOWN
        return "".join(out)
    if isinstance(e, ast.Dict):
        return DictVal(e)
    if isinstance(e, ast.Lambda):
        return FnRef(e)
    if isinstance(e, ast.Call) and isinstance(e.func, ast.Attribute) and e.func.attr == "get" and e.args:
        base = ev(e.func.value)
        if isinstance(base, DictVal):
            key = ev(e.args[0])
            if key is UNKNOWN:
                return UNKNOWN
            unknown_key = False
            for k, v in zip(base.node.keys, base.node.values):
                kv = ev(k) if k is not None else UNKNOWN
                if kv is UNKNOWN:
                    unknown_key = True
                elif kv == key:
                    return FnRef(v) if isinstance(v, (ast.Lambda, ast.Name, ast.Attribute)) and not isinstance(ev(v), (EnumVal, str, int)) else ev(v)
            if unknown_key:
                return UNKNOWN
            return ev(e.args[1]) if len(e.args) > 1 else None
        if isinstance(base, dict) and len(e.args) <= 2 and not e.keywords:  # a scenario record ({"Error": {"Code": ..}})
            key = ev(e.args[0])
            if key is UNKNOWN or not isinstance(key, (str, int)):
                return UNKNOWN
            if key in base:
                return base[key]
            if len(e.args) == 1:
                return None
            if isinstance(e.args[1], ast.Dict) and not e.args[1].keys:
                return {}
            return ev(e.args[1])
    if isinstance(e, ast.Call) and isinstance(e.func, ast.Name) and e.func.id == "getattr" and len(e.args) in (2, 3) and not e.keywords \
            and isinstance(e.args[1], ast.Constant) and isinstance(e.args[1].value, str) and isinstance(e.args[0], ast.Name):
        k_ = e.args[0].id + "." + e.args[1].value
        if k_ in env:
            return env[k_]
        if (e.args[0].id + ".*") in env:  # the scenario describes the whole object: any other attribute is absent
            return ev(e.args[2]) if len(e.args) == 3 else UNKNOWN
        return UNKNOWN
    if isinstance(e, ast.Compare) and len(e.ops) > 1:
        # a < b <= c  ==  a < b and b <= c (operands are evaluated once each; all are pure here)
        parts = []
        left = e.left
        for op_, right in zip(e.ops, e.comparators):
            parts.append(ast.Compare(left=left, ops=[op_], comparators=[right]))
            left = right
        res: object = True
        for p_ in parts:
            v_ = concrete_eval(ctx, f, ast.copy_location(p_, e), env, at, depth + 1)
            if v_ is UNKNOWN:
                res = UNKNOWN
            elif not v_:
                return False
        return res
    if isinstance(e, ast.Call) and (dotted(e.func) or "").split(".")[-1] == "timedelta" and not e.args and e.keywords \
            and all(k.arg in ("days", "seconds", "microseconds", "milliseconds", "minutes", "hours", "weeks") for k in e.keywords):
        import datetime as _dt
        kv = {k.arg: ev(k.value) for k in e.keywords}
        if all(isinstance(v_, (int, float)) and not isinstance(v_, bool) for v_ in kv.values()):
            try:
                return _dt.timedelta(**kv)  # type: ignore[arg-type]  # a duration VALUE (pure data), for helpers that take one apart
            except Exception:
                return UNKNOWN
        return UNKNOWN
    if isinstance(e, ast.Call) and isinstance(e.func, ast.Attribute) and e.func.attr == "total_seconds" and not e.args and not e.keywords:
        import datetime as _dt
        b_ = ev(e.func.value)
        return b_.total_seconds() if isinstance(b_, _dt.timedelta) else UNKNOWN
    if isinstance(e, ast.Call) and isinstance(e.func, ast.Attribute) and (e.func.attr + "()") in env and not e.keywords:
        # scenario hook for a storage / OS answer: `<x>.list_files(..)` -> the scripted listing, `<x>.get_modified_time(p)` ->
        # the scripted table's entry for the evaluated argument
        hv = env[e.func.attr + "()"]
        if isinstance(hv, dict):
            k_ = ev(e.args[0]) if e.args else UNKNOWN
            try:
                return hv.get(k_, UNKNOWN) if k_ is not UNKNOWN else UNKNOWN
            except TypeError:
                return UNKNOWN
        return hv
    if isinstance(e, ast.Call) and (dotted(e.func) or "") in ("os.getenv", "os.environ.get") and "os.getenv()" in env and e.args:
        v = env["os.getenv()"]  # scenario: what the environment variable holds (None = unset)
        if v is None:
            d_ = e.args[1] if len(e.args) > 1 else next((k.value for k in e.keywords if k.arg == "default"), None)
            return ev(d_) if d_ is not None else None
        return v
    if isinstance(e, ast.Set):
        vals = [ev(x) for x in e.elts]
        return UNKNOWN if any(v is UNKNOWN for v in vals) else frozenset(vals)  # type: ignore[arg-type]
    if isinstance(e, ast.Call) and isinstance(e.func, ast.Name) and e.func.id in ("frozenset", "set", "tuple", "list") and len(e.args) == 1 and not e.keywords:
        v = ev(e.args[0])
        if isinstance(v, (tuple, frozenset, list)) and not isinstance(v, PartialTuple):
            return frozenset(v) if e.func.id in ("frozenset", "set") else tuple(v)
        return UNKNOWN
    if isinstance(e, ast.BinOp) and isinstance(e.op, ast.BitOr):
        a, b = ev(e.left), ev(e.right)
        if all(isinstance(x, (frozenset, tuple)) and not isinstance(x, PartialTuple) for x in (a, b)) and any(isinstance(x, frozenset) for x in (a, b)):
            return frozenset(a) | frozenset(b)  # type: ignore[arg-type]  # a set display evaluates to a tuple of its members here
        return UNKNOWN
    if isinstance(e, (ast.GeneratorExp, ast.ListComp, ast.SetComp)) and depth < 10:
        # a comprehension over evaluable sequences (rows of a literal table): unrolled, every element must evaluate
        acc: List[object] = []

        class _Stop(Exception):
            pass

        def _go(i: int, env2: Dict[str, object]) -> None:
            if len(acc) > 512:
                raise _Stop()
            if i == len(e.generators):  # type: ignore[union-attr]
                v_ = concrete_eval(ctx, f, e.elt, env2, at, depth + 1)  # type: ignore[union-attr]
                if v_ is UNKNOWN:
                    raise _Stop()
                acc.append(v_)
                return
            gen = e.generators[i]  # type: ignore[union-attr]
            it = concrete_eval(ctx, f, gen.iter, env2, at, depth + 1)
            if not isinstance(it, (tuple, list, frozenset)) or isinstance(it, PartialTuple) or gen.is_async:
                raise _Stop()
            for el in it:
                env3 = dict(env2)
                if isinstance(gen.target, ast.Name):
                    env3[gen.target.id] = el
                elif isinstance(gen.target, (ast.Tuple, ast.List)) and all(isinstance(t, ast.Name) for t in gen.target.elts) \
                        and isinstance(el, (tuple, list)) and len(el) == len(gen.target.elts):
                    for t, x_ in zip(gen.target.elts, el):
                        env3[t.id] = x_  # type: ignore[attr-defined]
                else:
                    raise _Stop()
                keep = True
                for c_ in gen.ifs:
                    cv = concrete_eval(ctx, f, c_, env3, at, depth + 1)
                    if cv is UNKNOWN:
                        raise _Stop()
                    keep = keep and bool(cv)
                if keep:
                    _go(i + 1, env3)
        try:
            _go(0, dict(env))
        except _Stop:
            return UNKNOWN
        except Exception:
            return UNKNOWN
        try:
            return frozenset(acc) if isinstance(e, ast.SetComp) else tuple(acc)
        except TypeError:
            return UNKNOWN
    if isinstance(e, ast.Call) and ("ret", id(e)) in env:
        return env[("ret", id(e))]  # type: ignore[index]  # the carried result of a helper analysed in place
    if isinstance(e, ast.Call):
        fn = e.func
        if isinstance(fn, ast.Name) and fn.id == "isinstance" and len(e.args) == 2:
            v = ev(e.args[0])
            if v is UNKNOWN:
                return UNKNOWN
            types = e.args[1].elts if isinstance(e.args[1], ast.Tuple) else [e.args[1]]
            names = {dotted(t) for t in types}
            if isinstance(v, EnumVal):
                return v.cls in names or "Enum" in names
            py = {"str": str, "int": int, "float": float, "bool": bool, "bytes": bytes, "dict": dict, "list": list, "tuple": tuple}
            known = [py[n] for n in names if n in py]
            if any(isinstance(v, t) for t in known):
                return True
            return False if len(known) == len(names) or not isinstance(v, EnumVal) and all(n not in py for n in names) else UNKNOWN
        if isinstance(fn, ast.Name) and fn.id == "str" and len(e.args) == 1:
            v = ev(e.args[0])
            return v if isinstance(v, str) else UNKNOWN
        if isinstance(fn, ast.Name) and fn.id == "float" and len(e.args) == 1 and isinstance(e.args[0], ast.Constant) \
                and isinstance(e.args[0].value, str) and e.args[0].value.strip().lower() in ("nan", "inf", "-inf", "+inf"):
            return float(e.args[0].value)
        if isinstance(fn, ast.Name) and fn.id == "bool" and len(e.args) == 1:
            v = ev(e.args[0])
            return UNKNOWN if v is UNKNOWN else bool(v)
        if isinstance(fn, ast.Name) and fn.id == "len" and len(e.args) == 1:
            v = ev(e.args[0])
            return len(v) if isinstance(v, (tuple, list, str, dict, set, frozenset)) else UNKNOWN
        if isinstance(fn, ast.Name) and fn.id in ("all", "any") and len(e.args) == 1 and not e.keywords:
            v = ev(e.args[0])
            if isinstance(v, (tuple, frozenset)) and not isinstance(v, PartialTuple) and not any(x_ is UNKNOWN for x_ in v):
                return all(v) if fn.id == "all" else any(v)
            return UNKNOWN
        if (dotted(fn) or "") in ("os.path.commonpath", "posixpath.commonpath") and len(e.args) == 1 and not e.keywords:
            v = ev(e.args[0])
            if isinstance(v, tuple) and not isinstance(v, PartialTuple) and v and all(isinstance(x_, str) and x_.startswith("/") for x_ in v):
                import posixpath
                return posixpath.commonpath(list(v))  # all absolute: purely lexical, cannot raise
            return UNKNOWN
        if (dotted(fn) or "").split(".")[-1] in ("PurePath", "PurePosixPath", "Path") and len(e.args) == 1 and not e.keywords:
            v = ev(e.args[0])
            if isinstance(v, str):
                import pathlib
                return PurePathVal(pathlib.PurePosixPath(v))
            return UNKNOWN
        if isinstance(fn, ast.Attribute) and fn.attr in ("is_relative_to", "relative_to") and len(e.args) == 1 and not e.keywords:
            v, w = ev(fn.value), ev(e.args[0])
            if isinstance(v, PurePathVal) and isinstance(w, (PurePathVal, str)):
                w_ = w.p if isinstance(w, PurePathVal) else w
                if fn.attr == "is_relative_to":
                    return v.p.is_relative_to(w_)
                try:
                    return PurePathVal(v.p.relative_to(w_))
                except ValueError:
                    return UNKNOWN
            return UNKNOWN
        if isinstance(fn, ast.Attribute) and fn.attr == "format" and not any(k.arg is None for k in e.keywords) \
                and not any(isinstance(a_, ast.Starred) for a_ in e.args):
            v = ev(fn.value)
            args = [ev(a_) for a_ in e.args]
            kws = {k.arg: ev(k.value) for k in e.keywords}
            if isinstance(v, str) and all(isinstance(a_, (str, int)) and not isinstance(a_, bool) for a_ in args + list(kws.values())):
                try:
                    return v.format(*args, **kws)
                except Exception:
                    return UNKNOWN
            return UNKNOWN
        if isinstance(fn, ast.Attribute) and fn.attr in ("lower", "upper", "strip") and not e.args:
            v = ev(fn.value)
            return getattr(v, fn.attr)() if isinstance(v, str) else UNKNOWN
        if isinstance(fn, ast.Attribute) and fn.attr in ("replace", "rsplit", "split", "rpartition", "partition", "lstrip", "rstrip",
                                                          "startswith", "endswith", "isdigit", "isascii", "isdecimal", "removeprefix", "removesuffix") and not e.keywords:
            v = ev(fn.value)
            args = [ev(a) for a in e.args]
            if isinstance(v, str) and all(isinstance(a, (str, int, tuple)) and not isinstance(a, PartialTuple) for a in args):
                try:
                    r_ = getattr(v, fn.attr)(*args)
                    return tuple(r_) if isinstance(r_, list) else r_
                except Exception:
                    return UNKNOWN
            return UNKNOWN
        if isinstance(fn, ast.Attribute) and fn.attr in ("match", "fullmatch", "search") and isinstance(fn.value, ast.Name) and len(e.args) == 1:
            # <MODULE_REGEX>.match(<scenario string>) with MODULE_REGEX = re.compile(<constant pattern>)
            cdef = f.module.consts.get(fn.value.id)
            v = ev(e.args[0])
            if isinstance(cdef, ast.Call) and (dotted(cdef.func) or "") == "re.compile" and cdef.args and isinstance(v, str):
                rx_ = compiled_regex(ctx, f, cdef)
                if rx_ is not None:
                    try:
                        mm_ = getattr(rx_, fn.attr)(v)
                    except Exception:
                        return UNKNOWN
                    return MatchVal(mm_) if mm_ is not None else None
            return UNKNOWN
        if isinstance(fn, ast.Attribute) and fn.attr == "group" and len(e.args) <= 1:
            v = ev(fn.value)
            i = ev(e.args[0]) if e.args else 0
            if isinstance(v, MatchVal) and isinstance(i, (int, str)):
                try:
                    return v.m.group(i)
                except Exception:
                    return UNKNOWN
            return UNKNOWN
        if isinstance(fn, ast.Name) and fn.id == "int" and len(e.args) == 1:
            v = ev(e.args[0])
            try:
                return int(v) if isinstance(v, (str, int)) and not isinstance(v, bool) else UNKNOWN
            except Exception:
                return UNKNOWN
        if isinstance(fn, ast.Attribute) and (dotted(fn) or "") in ("os.path.basename", "os.path.dirname") and len(e.args) == 1:
            v = ev(e.args[0])
            if isinstance(v, str):
                import posixpath
                return posixpath.basename(v) if fn.attr == "basename" else posixpath.dirname(v)
            return UNKNOWN
        if isinstance(fn, ast.Attribute) and (dotted(fn) or "") in ("os.path.isabs", "posixpath.isabs", "os.path.normpath", "posixpath.normpath") \
                and len(e.args) == 1 and not e.keywords:
            v = ev(e.args[0])
            if isinstance(v, str):
                import posixpath
                return getattr(posixpath, fn.attr)(v)  # purely lexical (POSIX spelling)
            return UNKNOWN
        if isinstance(fn, ast.Attribute) and (dotted(fn) or "") in ("os.path.relpath", "posixpath.relpath") and len(e.args) == 2 and not e.keywords:
            a_, b_ = ev(e.args[0]), ev(e.args[1])
            if isinstance(a_, str) and isinstance(b_, str) and a_.startswith("/") and b_.startswith("/"):
                import posixpath
                return posixpath.relpath(a_, b_)  # both absolute: lexical, the working directory is not consulted
            return UNKNOWN
        if isinstance(fn, ast.Attribute) and (dotted(fn) or "") in ("os.path.join", "posixpath.join") and e.args and not e.keywords \
                and not any(isinstance(a_, ast.Starred) for a_ in e.args):
            vs = [ev(a_) for a_ in e.args]
            if all(isinstance(v_, str) for v_ in vs):
                import posixpath
                return posixpath.join(*vs)  # type: ignore[arg-type]
            return UNKNOWN
        # a small helper of the package (`self._key_root()`, `_join(a, b)`): evaluated under the same scenario - its
        # parameters are the evaluated arguments, `self.<attr>` entries of the scenario carry over for a method on self;
        # the value is taken only when every return path yields the same concrete value
        if depth < 8:
            try:
                cal = ctx.prog.resolve_call(e, f)
            except Exception:
                cal = None
            if cal is not None and cal.kind == "func" and len(cal.funcs) == 1 and not isinstance(cal.funcs[0].node, ast.Lambda) \
                    and not any(isinstance(a_, ast.Starred) for a_ in e.args) and not any(k.arg is None for k in e.keywords):
                t = cal.funcs[0]
                on_self = isinstance(fn, ast.Attribute) and isinstance(fn.value, ast.Name) and fn.value.id == (f.self_name() or "\x00")
                pnames = [p_.name for p_ in t.params if not (t.cls is not None and not t.is_static and p_ is t.params[0])]
                inner: Dict[str, object] = {k_: v_ for k_, v_ in env.items() if isinstance(k_, str) and "()" in k_}  # scenario hooks
                if on_self and t.self_name():
                    for k_, v_ in env.items():
                        if isinstance(k_, str) and k_.startswith((f.self_name() or "self") + "."):
                            inner[t.self_name() + k_[len(f.self_name() or "self"):]] = v_
                okb = len(e.args) <= len(pnames)
                for i_, a_ in enumerate(e.args[:len(pnames)]):
                    inner[pnames[i_]] = ev(a_)
                for k in e.keywords:
                    if k.arg in pnames:
                        inner[k.arg] = ev(k.value)
                    else:
                        okb = False
                for p_ in t.params:
                    if p_.name in pnames and p_.name not in inner:
                        if p_.default is None:
                            okb = False
                        else:
                            inner[p_.name] = concrete_eval(ctx, t, p_.default, {}, ctx.cfg(t).entry, depth + 1)
                if okb and not any(v_ is UNKNOWN for k_, v_ in inner.items() if k_ in pnames):
                    tg = ctx.cfg(t)
                    rets = [n_.id for n_ in tg.nodes if n_.kind == "return"]
                    vals = []
                    try:
                        for nid, store, _asm in explore(ctx, t, [tg.entry], inner, stop=rets):
                            n_ = tg.nodes[nid]
                            if n_.kind == "return":
                                scen = dict(inner)
                                scen.update({k_: v_ for k_, v_ in store.items() if isinstance(k_, str)})
                                vals.append(concrete_eval(ctx, t, n_.ast.value, scen, nid, depth + 1) if n_.ast is not None and n_.ast.value is not None else None)  # type: ignore[union-attr]
                    except Exception:
                        vals = [UNKNOWN]
                    if vals and all(v_ is not UNKNOWN for v_ in vals) and all(v_ == vals[0] for v_ in vals):
                        return vals[0]
        if isinstance(fn, ast.Name):
            # EnumClass(value)
            for ci in ctx.prog.classes.values():
                if ci.name == fn.id and len(e.args) == 1:
                    v = ev(e.args[0])
                    for nm, cv in ci.consts.items():
                        if isinstance(cv, ast.Constant) and v is not UNKNOWN and cv.value == v:
                            return EnumVal(ci.name, nm, cv.value)
        return UNKNOWN
    return UNKNOWN


def _endless_generator_call(ctx: Ctx, f: FunctionInfo, call: ast.Call) -> bool:
    """`call` resolves to one package generator whose body ends in `while True:` with a yield on every iteration and no
    break / return / raise statement anywhere in the function: it never runs dry, so it cannot shorten a zip."""
    try:
        cal = ctx.prog.resolve_call(call, f)
    except Exception:
        return False
    if cal is None or cal.kind != "func" or len(cal.funcs) != 1:
        return False
    t = cal.funcs[0]
    body = getattr(t.node, "body", None)
    if not isinstance(body, list) or not body:
        return False
    last = body[-1]
    if not (isinstance(last, ast.While) and isinstance(last.test, ast.Constant) and last.test.value is True and not last.orelse):
        return False
    inner = [x for st in body for x in ast.walk(st)]
    if any(isinstance(x, (ast.Break, ast.Return, ast.Raise, ast.FunctionDef, ast.Lambda, ast.Try, ast.With, ast.YieldFrom, ast.Await)) for x in inner):
        return False
    # a yield statement directly in the loop body (not under a condition)
    return any(isinstance(st, ast.Expr) and isinstance(st.value, ast.Yield) for st in last.body) \
        and not any(isinstance(x, ast.Yield) for st in body[:-1] for x in ast.walk(st)) \
        and not any(isinstance(x, ast.Continue) for x in inner)


def scenario_walk(ctx: Ctx, f: FunctionInfo, starts: Iterable[int], env: Dict[str, object],
                  stop: Iterable[int] = ()) -> Tuple[Set[int], bool]:
    """Nodes reachable from `starts` (normal edges) when every branch whose condition evaluates under the scenario is taken
    accordingly.  Returns (reached node ids, undecided) - undecided: some branch mentioning a scenario variable could not
    be evaluated (both edges were followed)."""
    g = ctx.cfg(f)
    seen: Set[int] = set()
    work = list(starts)
    stop_set = set(stop)
    undecided = False
    while work:
        x = work.pop()
        if x in seen:
            continue
        seen.add(x)
        if x in stop_set:
            continue
        nx = g.nodes[x]
        if nx.kind == "branch" and nx.ast is not None:
            v = concrete_eval(ctx, f, nx.ast, env, nx.id)
            if v is UNKNOWN and ((set(names_in(nx.ast)) & set(env)) or (set(ctx.slicer(f).origins(nx.ast, nx.id)["names"]) & set(env))):
                undecided = True
            for d, l in g.succ[x]:
                if l in NORMAL and (v is UNKNOWN or l not in ("true", "false") or l == ("true" if v else "false")):
                    work.append(d)
            continue
        work.extend(d for d, l in g.succ[x] if l in NORMAL)
    return seen, undecided


def known_flag(ctx: Ctx, f: FunctionInfo, n: Node, attr: str) -> Optional[bool]:
    """Is a capability flag (`<x>.attr` or a local set from it) known true / false on arrival at n?  None = not decided."""
    val: Optional[bool] = None
    for pol, e, _at in facts_at(ctx, f, n):
        if pol in ("true", "false") and isinstance(e, (ast.Attribute, ast.Name)) and (dotted(e) or "").split(".")[-1] == attr:
            val = (pol == "true")
    return val


def error_escapes(ctx: Ctx, f: FunctionInfo, n: Node, cls: str = "OSError") -> Tuple[bool, str]:
    """Does an exception of class `cls` raised at node n leave the function?  Follows handlers that re-raise on every path
    (bare `raise` / `raise X from e`) outward; a handler that can complete normally stops it."""
    g = ctx.cfg(f)
    frames = list(n.frames)
    for _ in range(8):
        esc, caught = ctx.eff.propagate(f, {cls}, frames, record=False)
        if esc:
            return True, ""
        full = [(h, c) for h, c in caught if ctx.prog.exc_is_subclass(cls, c) or c == cls or any(
            ctx.prog.exc_is_subclass(cls, hc) for hc in handler_classes(h))]
        if not full:
            return False, "caught"
        h = full[0][0]
        hn = next((x for x in g.nodes if x.kind == "handler" and x.ast is h), None)
        if hn is None:
            return False, "handler not in CFG"
        if not handler_always_raises(ctx, f, hn):
            return False, f"swallowed by `except {','.join(handler_classes(h))}` at line {hn.lineno}"
        frames = list(hn.frames)  # the re-raise travels outward from the handler
    return False, "too deep"


# ------------------------------------------------------------ path-sensitive exploration with a finite predicate store
class Sym:
    """A boolean atom the scenario evaluator cannot decide (a comparison with a clock / stat value, an opaque call).
    Identified by the AST node it was first seen as; `neg` = logical negation of that atom."""
    def __init__(self, key: int, neg: bool = False, text: str = "") -> None:
        self.key, self.neg, self.text = key, neg, text

    def __repr__(self) -> str:
        return ("!" if self.neg else "") + f"sym{self.key}"


def _sym_of(e: ast.AST) -> Optional[Sym]:
    neg = False
    while True:
        if isinstance(e, ast.UnaryOp) and isinstance(e.op, ast.Not):
            neg, e = not neg, e.operand
        elif isinstance(e, ast.Call) and isinstance(e.func, ast.Name) and e.func.id == "bool" and len(e.args) == 1:
            e = e.args[0]
        else:
            break
    if isinstance(e, (ast.Compare, ast.Call, ast.BoolOp, ast.Attribute, ast.Subscript)):
        return Sym(id(e), neg, norm_text(e)[:40])
    return None


def explore(ctx: Ctx, f: FunctionInfo, starts: Iterable[int], env: Optional[Dict[str, object]] = None,
            assume: Optional[Dict[int, bool]] = None, stop: Iterable[int] = (), watch: Iterable[int] = (),
            max_states: int = 6000, init: Optional[Dict[object, object]] = None,
            iterate: bool = False) -> List[Tuple[int, Dict[object, object], Dict[int, bool]]]:
    """Path-sensitive walk over the normal edges of f's CFG (ESP-style property simulation): each state is a node plus a
    finite store {variable -> constant | Sym} and a set of assumptions {atom -> bool}.  Assignments of evaluable
    expressions update the store, an undecidable branch forks and records the assumption (so a flag tested twice is
    consistent), the return value of a helper analysed in place is carried to the assignment of its call.
    Returns [(end node, store, assumptions)] for every path that reaches a `stop` node or the exit; store[('seen', n)]
    is True when watch node n was passed.  `init` is the store the walk starts with (to continue a walk that stopped at a
    node); with `iterate`, `for x in <evaluable sequence>` binds x element by element and `n += <int>` is computed."""
    g = ctx.cfg(f)
    env = dict(env or {})
    stop_set, watch_set = set(stop), set(watch)
    ret_call = {nid: cid for cid, lst in g.inline_returns.items() for (_e, nid) in lst}
    results: List[Tuple[int, Dict[object, object], Dict[int, bool]]] = []
    work: List[Tuple[int, Dict[object, object], Dict[int, bool]]] = [(s, dict(init or {}), dict(assume or {})) for s in starts]
    seen: Set[Tuple[int, frozenset, frozenset]] = set()
    first = {s for s in starts}

    asm_now: Dict[int, bool] = {}

    def value_of(e: Optional[ast.AST], at: int, store: Dict[object, object]) -> object:
        if e is None:
            return None
        if isinstance(e, ast.Call) and id(e) in g.inline_returns:
            return store.get(("ret", id(e)), UNKNOWN)
        if isinstance(e, ast.Name) and e.id in store:
            return store[e.id]
        scen = dict(env)
        scen.update({k: v for k, v in store.items() if isinstance(k, str) and not isinstance(v, Sym)})
        # results of helpers analysed in place, for calls nested in a larger expression (`not self._mtime(p) < cutoff`)
        scen.update({k: v for k, v in store.items() if isinstance(k, tuple) and len(k) == 2 and k[0] == "ret" and not isinstance(v, Sym)})  # type: ignore[misc]
        scen.update({("atom", k): v for k, v in asm_now.items()})  # type: ignore[misc]  # assumed atoms inside larger expressions
        v = concrete_eval(ctx, f, e, scen, at)
        if v is UNKNOWN:
            inner = e
            s_ = _sym_of(inner)
            if s_ is not None:
                # `not flag` / `bool(flag)` of a symbolic flag
                base = inner
                neg = False
                while isinstance(base, ast.UnaryOp) and isinstance(base.op, ast.Not):
                    neg, base = not neg, base.operand
                if isinstance(base, ast.Name) and isinstance(store.get(base.id), Sym):
                    sv = store[base.id]
                    return Sym(sv.key, sv.neg != neg, sv.text)  # type: ignore[union-attr]
                return s_
            if isinstance(e, ast.UnaryOp) and isinstance(e.op, ast.Not) and isinstance(e.operand, ast.Name) \
                    and isinstance(store.get(e.operand.id), Sym):
                sv = store[e.operand.id]
                return Sym(sv.key, not sv.neg, sv.text)  # type: ignore[union-attr]
        return v

    while work and len(seen) < max_states:
        nid, store, asm = work.pop()
        asm_now.clear()
        asm_now.update(asm)
        key = (nid, frozenset((repr(k), repr(v)) for k, v in store.items()), frozenset(asm.items()))
        if key in seen:
            continue
        seen.add(key)
        store = dict(store)
        if nid in watch_set:
            store[("seen", nid)] = True
        if (nid in stop_set and not (init is not None and nid in first and store == init)) or nid == g.exit:
            results.append((nid, store, asm))
            continue
        n = g.nodes[nid]
        a = n.ast
        if iterate and n.kind == "loop" and isinstance(a, ast.For) and (isinstance(a.target, ast.Name) or (
                isinstance(a.target, ast.Tuple) and all(isinstance(t_, ast.Name) for t_ in a.target.elts))):
            seq = value_of(a.iter, nid, store)
            if isinstance(a.target, ast.Tuple) and not (isinstance(seq, tuple) and all(
                    isinstance(x_, tuple) and len(x_) == len(a.target.elts) for x_ in seq)):
                seq = UNKNOWN
            if isinstance(seq, tuple) and not isinstance(seq, PartialTuple):
                i = store.get(("iter", nid), 0)
                if isinstance(i, int) and i < len(seq):
                    if isinstance(a.target, ast.Tuple):
                        for t_, x_ in zip(a.target.elts, seq[i]):
                            store[t_.id] = x_  # type: ignore[attr-defined]
                    else:
                        store[a.target.id] = seq[i]
                    store[("iter", nid)] = i + 1
                    t = edge_target(g, n, "true")
                else:
                    store.pop(("iter", nid), None)
                    t = edge_target(g, n, "false")
                if t is not None:
                    work.append((t, store, asm))
                continue
        if iterate and n.kind == "stmt" and isinstance(a, ast.AugAssign) and isinstance(a.target, ast.Name) \
                and isinstance(a.op, (ast.Add, ast.Sub)):
            cur, dv = store.get(a.target.id, env.get(a.target.id, UNKNOWN)), value_of(a.value, nid, store)
            if cur is UNKNOWN and a.target.id not in store:
                cur = value_of(ast.Name(id=a.target.id, ctx=ast.Load()), nid, store)
            if isinstance(cur, int) and isinstance(dv, int) and not isinstance(cur, bool) and not isinstance(dv, bool):
                store[a.target.id] = cur + dv if isinstance(a.op, ast.Add) else cur - dv
            else:
                store[a.target.id] = UNKNOWN
        elif n.kind == "stmt" and isinstance(a, ast.Assign) and len(a.targets) == 1 and isinstance(a.targets[0], ast.Name):
            store[a.targets[0].id] = value_of(a.value, nid, store)
        elif n.kind == "stmt" and isinstance(a, ast.Assign) and len(a.targets) == 1 and isinstance(a.targets[0], (ast.Tuple, ast.List)):
            tv = value_of(a.value, nid, store)
            elts = a.targets[0].elts
            for i, t in enumerate(elts):
                if isinstance(t, ast.Name):
                    store[t.id] = tv[i] if isinstance(tv, tuple) and len(tv) == len(elts) else UNKNOWN
        elif n.kind == "stmt" and isinstance(a, ast.Return) and nid in ret_call:
            store[("ret", ret_call[nid])] = value_of(a.value, nid, store)
        elif n.kind == "stmt" and isinstance(a, (ast.AugAssign,)) and isinstance(a.target, ast.Name):
            store[a.target.id] = UNKNOWN
        if n.kind == "branch" and a is not None:
            v = value_of(a, nid, store)
            if isinstance(v, Sym):
                if v.key in asm:
                    v = asm[v.key] != v.neg
                else:
                    for lab in ("true", "false"):
                        t = edge_target(g, n, lab)
                        if t is not None:
                            asm2 = dict(asm)
                            asm2[v.key] = (lab == "true") != v.neg
                            work.append((t, store, asm2))
                    continue
            if v is UNKNOWN:
                if set(names_in(a)) & (set(env) | {k for k in store if isinstance(k, str)}):
                    store[("undecided", nid)] = True  # a branch on scenario data that could not be evaluated: both ways
                for d, l in g.succ[nid]:
                    if l in NORMAL:
                        work.append((d, store, asm))
                continue
            t = edge_target(g, n, "true" if v else "false")
            if t is not None:
                work.append((t, store, asm))
            continue
        for d, l in g.succ[nid]:
            if l in NORMAL:
                work.append((d, store, asm))
    return results


def call_keywords(ctx: Ctx, f: FunctionInfo, n: Node) -> Dict[str, List[ast.AST]]:
    """Keyword arguments of a call node, with `**name` expanded when every reaching definition of `name` is a dict display
    (or a conditional expression of dict displays) with constant keys: {keyword: [possible value expressions]}.
    The pseudo-key '**?' marks an expansion that could not be resolved."""
    out: Dict[str, List[ast.AST]] = {}
    a = n.ast
    if not isinstance(a, ast.Call):
        return out
    g = ctx.cfg(f)

    def add_dict(d: ast.AST) -> bool:
        if isinstance(d, ast.IfExp):
            return add_dict(d.body) and add_dict(d.orelse)
        if isinstance(d, ast.Dict):
            for k, v in zip(d.keys, d.values):
                if k is None:
                    if not expand(v):
                        return False
                elif isinstance(k, ast.Constant) and isinstance(k.value, str):
                    out.setdefault(k.value, []).append(v)
                else:
                    return False
            return True
        if isinstance(d, ast.Call) and isinstance(d.func, ast.Name) and d.func.id == "dict" and not d.args:
            for kw in d.keywords:
                if kw.arg is None:
                    return False
                out.setdefault(kw.arg, []).append(kw.value)
            return True
        return False

    def expand(x: ast.AST) -> bool:
        if isinstance(x, (ast.Dict, ast.IfExp)):
            return add_dict(x)
        if isinstance(x, ast.Name):
            defs = ctx.rd(f).reaching(n.id, x.id)
            if not defs or g.entry in defs:
                return False
            ok = True
            for d in defs:
                dn = g.nodes[d]
                if isinstance(dn.ast, ast.Assign) and len(dn.ast.targets) == 1 and isinstance(dn.ast.targets[0], ast.Name):
                    ok = add_dict(dn.ast.value) and ok
                elif isinstance(dn.ast, ast.Assign) and isinstance(dn.ast.targets[0], ast.Subscript) \
                        and isinstance(dn.ast.targets[0].slice, ast.Constant):
                    out.setdefault(str(dn.ast.targets[0].slice.value), []).append(dn.ast.value)
                else:
                    ok = False
            return ok
        return False

    for kw in a.keywords:
        if kw.arg is not None:
            out.setdefault(kw.arg, []).append(kw.value)
        elif not expand(kw.value):
            out.setdefault("**?", []).append(kw.value)
    return out


def _dict_key_sets(e: ast.AST) -> Set[frozenset]:
    """Possible key sets of a dict-valued expression ('?' = not understood)."""
    if isinstance(e, ast.Dict):
        ks = set()
        for k in e.keys:
            if k is None or not (isinstance(k, ast.Constant) and isinstance(k.value, str)):
                return {frozenset({"?"})}
            ks.add(k.value)
        return {frozenset(ks)}
    if isinstance(e, ast.IfExp):
        return _dict_key_sets(e.body) | _dict_key_sets(e.orelse)
    if isinstance(e, ast.Call) and isinstance(e.func, ast.Name) and e.func.id == "dict" and not e.args:
        if any(k.arg is None for k in e.keywords):
            return {frozenset({"?"})}
        return {frozenset(k.arg for k in e.keywords if k.arg)}
    return {frozenset({"?"})}


def dict_key_states(ctx: Ctx, f: FunctionInfo, var: str, at: int) -> Set[frozenset]:
    """Forward may-analysis over the CFG: the possible key sets held by dict variable `var` on arrival at node `at`
    (one set per distinguishable history: display / dict() definitions, `var[k] = v` stores; anything else adds '?')."""
    g = ctx.cfg(f)
    state: Dict[int, Set[frozenset]] = {g.entry: {frozenset({"?"})}}
    work = [g.entry]
    while work:
        n = work.pop()
        cur = state.get(n, set())
        node = g.nodes[n]
        out = cur
        a = node.ast
        if node.kind == "stmt" and isinstance(a, ast.Assign) and len(a.targets) == 1:
            t = a.targets[0]
            if isinstance(t, ast.Name) and t.id == var:
                out = _dict_key_sets(a.value)
            elif isinstance(t, ast.Subscript) and isinstance(t.value, ast.Name) and t.value.id == var:
                if isinstance(t.slice, ast.Constant) and isinstance(t.slice.value, str):
                    out = {st | {t.slice.value} for st in cur}
                else:
                    out = {st | {"?"} for st in cur}
        elif node.kind == "call" and isinstance(a, ast.Call) and isinstance(a.func, ast.Attribute) \
                and isinstance(a.func.value, ast.Name) and a.func.value.id == var and a.func.attr in ("update", "setdefault", "pop", "clear", "popitem"):
            out = {st | {"?"} for st in cur}
        if n == at:
            continue
        for d, lab in g.succ[n]:
            if lab not in NORMAL:
                continue
            old = state.get(d, set())
            new = old | out
            if new != old or d not in state:
                state[d] = new
                work.append(d)
    return state.get(at, set())


def call_keyword_states(ctx: Ctx, f: FunctionInfo, n: Node) -> Set[frozenset]:
    """The possible sets of keyword names a call is made with, one per distinguishable path (explicit keywords plus the
    expansion of `**name` / `**{...}`)."""
    a = n.ast
    if not isinstance(a, ast.Call):
        return set()
    states: Set[frozenset] = {frozenset(k.arg for k in a.keywords if k.arg is not None)}
    for kw in a.keywords:
        if kw.arg is not None:
            continue
        if isinstance(kw.value, ast.Name):
            sub = dict_key_states(ctx, f, kw.value.id, n.id)
        else:
            sub = _dict_key_sets(kw.value)
        states = {a_ | b_ for a_ in states for b_ in (sub or {frozenset({"?"})})}
    return states


def effective_returns(ctx: Ctx, f: FunctionInfo) -> List[Tuple[Node, Optional[ast.AST]]]:
    """(node, value expression) for every way f hands out a result: its own `return` statements, and - when the returned
    expression is a call of a helper analysed in place - that helper's return sites instead."""
    g = ctx.cfg(f)
    out: List[Tuple[Node, Optional[ast.AST]]] = []
    seen: Set[int] = set()

    def expand(n: Node, v: Optional[ast.AST], depth: int = 0) -> None:
        if isinstance(v, ast.Call) and id(v) in g.inline_returns and depth < 4:
            for rexpr, rnode in g.inline_returns[id(v)]:
                if rnode in g.reachable() and rnode not in seen:
                    seen.add(rnode)
                    expand(g.nodes[rnode], rexpr, depth + 1)
            return
        out.append((n, v))

    for n in g.nodes:
        if n.kind == "return" and n.id in g.reachable():
            expand(n, n.ast.value)  # type: ignore[union-attr]
    return out


def resolve_value(ctx: Ctx, f: FunctionInfo, e: Optional[ast.AST], at: int, depth: int = 0) -> List[Tuple[Optional[ast.AST], int]]:
    """The expressions a value can come from, looking through local variables (all reaching definitions), tuple
    unpacking (`a, b = x, y` / `a, b = helper()`), and calls of helpers analysed in place (their return expressions).
    A `None` guard value (`x = None`) is reported like any other expression; parameters end the chain as the Name."""
    g = ctx.cfg(f)
    if e is None or depth > 8:
        return [(e, at)]
    if isinstance(e, ast.Call) and id(e) in g.inline_returns:
        out: List[Tuple[Optional[ast.AST], int]] = []
        for rexpr, rnode in g.inline_returns[id(e)]:
            if rnode in g.reachable():
                out += resolve_value(ctx, f, rexpr, rnode, depth + 1)
        return out or [(e, at)]
    if isinstance(e, ast.Name):
        defs = ctx.rd(f).reaching(at, e.id)
        out = []
        for d in defs:
            dn = g.nodes[d]
            if d == g.entry or not isinstance(dn.ast, ast.Assign) or len(dn.ast.targets) != 1:
                out.append((e, at))
                continue
            tg = dn.ast.targets[0]
            if isinstance(tg, ast.Name):
                out += resolve_value(ctx, f, dn.ast.value, d, depth + 1)
            elif isinstance(tg, (ast.Tuple, ast.List)):
                idx = next((i for i, t in enumerate(tg.elts) if isinstance(t, ast.Name) and t.id == e.id), None)
                for src, sat in resolve_value(ctx, f, dn.ast.value, d, depth + 1):
                    if idx is not None and isinstance(src, (ast.Tuple, ast.List)) and len(src.elts) == len(tg.elts):
                        out += resolve_value(ctx, f, src.elts[idx], sat, depth + 1)
                        continue
                    # unpacking a NamedTuple built in place: element i is the argument of the i-th declared field
                    fa = record_positional_arg(ctx, src, idx, len(tg.elts)) if idx is not None else None
                    if fa is not None:
                        out += resolve_value(ctx, f, fa, sat, depth + 1)
                    else:
                        out.append((src, sat))
            else:
                out.append((e, at))
        return out or [(e, at)]
    return [(e, at)]


def walk_all(ctx: Ctx, f: FunctionInfo) -> List[ast.AST]:
    """Every AST node of f's body plus those of the helpers analysed in place in f (their alpha-renamed copies)."""
    out: List[ast.AST] = []
    seen: Set[int] = set()
    roots: List[ast.AST] = [f.node] + [n.ast for n in ctx.cfg(f).nodes if n.ast is not None and n.kind in ("stmt", "return", "raise", "branch", "call")]
    for r in roots:
        for x in ast.walk(r):
            if id(x) not in seen:
                seen.add(id(x))
                out.append(x)
    return out


# ------------------------------------------------------------- module-level numeric constants
def module_const_number(ctx: Ctx, mod, e: Optional[ast.AST], env: Optional[Dict[str, object]] = None, depth: int = 0) -> Optional[object]:
    """The number a module-level constant expression denotes, or None when it is not a compile-time number: literals,
    arithmetic, other module constants (`24 * _MS_PER_HOUR`), single-return pure module helpers applied to such values
    (`_hours_ms(24)`), int()/float()/round() and `timedelta(<unit>=n).total_seconds()`.  Nothing is executed; an environment
    read, a clock, an attribute of an object or any unknown call is None."""
    if e is None or depth > 8:
        return None
    env = env or {}
    ev = lambda x: module_const_number(ctx, mod, x, env, depth + 1)  # noqa: E731
    if isinstance(e, ast.Constant):
        return e.value if isinstance(e.value, (int, float)) and not isinstance(e.value, bool) else None
    if isinstance(e, ast.Name):
        if e.id in env:
            return env[e.id]
        return module_const_number(ctx, mod, mod.consts.get(e.id), {}, depth + 1) if e.id in mod.consts else None
    if isinstance(e, ast.UnaryOp) and isinstance(e.op, (ast.USub, ast.UAdd)):
        v = ev(e.operand)
        return None if v is None else (-v if isinstance(e.op, ast.USub) else v)
    if isinstance(e, ast.BinOp):
        l, r = ev(e.left), ev(e.right)
        if l is None or r is None:
            return None
        try:
            if isinstance(e.op, ast.Add):
                return l + r
            if isinstance(e.op, ast.Sub):
                return l - r
            if isinstance(e.op, ast.Mult):
                return l * r
            if isinstance(e.op, ast.FloorDiv):
                return l // r
            if isinstance(e.op, ast.Div):
                return l / r
            if isinstance(e.op, ast.Pow) and abs(r) <= 16:
                return l ** r
        except Exception:
            return None
        return None
    if isinstance(e, ast.Call):
        d = dotted(e.func) or ""
        if d in ("int", "float", "round") and len(e.args) == 1 and not e.keywords:
            v = ev(e.args[0])
            return None if v is None else {"int": int, "float": float, "round": round}[d](v)
        # timedelta(hours=24).total_seconds()  /  timedelta(...) // timedelta(milliseconds=1)
        if isinstance(e.func, ast.Attribute) and e.func.attr == "total_seconds" and not e.args and not e.keywords:
            td = _timedelta_seconds(ctx, mod, e.func.value, env, depth + 1)
            return td
        f = next((x for x in ctx.prog.functions.values() if x.module is mod and x.cls is None and x.parent is None and x.name == d), None)
        if f is not None and not isinstance(f.node, ast.Lambda):
            body = [st for st in f.node.body if not (isinstance(st, ast.Expr) and isinstance(st.value, ast.Constant))]  # type: ignore[attr-defined]
            if len(body) == 1 and isinstance(body[0], ast.Return) and body[0].value is not None:
                names = [p_.name for p_ in f.params]
                inner: Dict[str, object] = {}
                for i, a in enumerate(e.args):
                    if i >= len(names) or isinstance(a, ast.Starred):
                        return None
                    v = ev(a)
                    if v is None:
                        return None
                    inner[names[i]] = v
                for k in e.keywords:
                    if k.arg is None or k.arg not in names:
                        return None
                    v = ev(k.value)
                    if v is None:
                        return None
                    inner[k.arg] = v
                for p_ in f.params:
                    if p_.name not in inner:
                        v = module_const_number(ctx, mod, p_.default, {}, depth + 1)
                        if v is None:
                            return None
                        inner[p_.name] = v
                return module_const_number(ctx, mod, body[0].value, inner, depth + 1)
    return None


_TD_UNITS = {"weeks": 604800.0, "days": 86400.0, "hours": 3600.0, "minutes": 60.0, "seconds": 1.0, "milliseconds": 1e-3, "microseconds": 1e-6}


def _timedelta_seconds(ctx: Ctx, mod, e: ast.AST, env: Dict[str, object], depth: int) -> Optional[float]:
    if isinstance(e, ast.Call) and (dotted(e.func) or "").split(".")[-1] == "timedelta" and not e.args:
        tot = 0.0
        for k in e.keywords:
            if k.arg not in _TD_UNITS:
                return None
            v = module_const_number(ctx, mod, k.value, env, depth + 1)
            if v is None:
                return None
            tot += float(v) * _TD_UNITS[k.arg]
        return tot
    return None


# ------------------------------------------------------------- numbers are compared, not truth-tested
_NUM_NAMES = {"int", "float"}
FALSY_ZERO_EXCEPTIONS = {
    ("datashard.file_manager.FileManager.create_manifest_file", "snapshot_id"):
        "snapshot ids are random 63-bit numbers drawn by the transaction; the `or` only supplies an id when the caller gave none",
}


def _ann_kind(ctx: Ctx, ann: Optional[ast.AST]):  # type: ignore[no-untyped-def]
    """('num',) for int / float / Optional[...] of those; ('tuple', [kinds]) for Tuple[...]; ('rec', ClassInfo) for a NamedTuple /
    dataclass of the package; None otherwise (strings, Any, unknown)."""
    if ann is None:
        return None
    if isinstance(ann, ast.Constant) and isinstance(ann.value, str):
        try:
            ann = ast.parse(ann.value, mode="eval").body
        except SyntaxError:
            return None
    if isinstance(ann, ast.BinOp) and isinstance(ann.op, ast.BitOr):  # X | None
        sides = [x for x in (ann.left, ann.right) if not (isinstance(x, ast.Constant) and x.value is None)]
        return _ann_kind(ctx, sides[0]) if len(sides) == 1 else None
    if isinstance(ann, ast.Subscript):
        head = (dotted(ann.value) or "").split(".")[-1]
        if head == "Optional":
            return _ann_kind(ctx, ann.slice)
        if head in ("Tuple", "tuple") and isinstance(ann.slice, ast.Tuple):
            return ("tuple", [_ann_kind(ctx, x) for x in ann.slice.elts])
        return None
    d = (dotted(ann) or "").split(".")[-1]
    if d in _NUM_NAMES:
        return ("num",)
    ci = next((c for c in ctx.prog.classes.values() if c.name == d), None) if d else None
    if ci is not None:
        flds = [(st.target.id, st.annotation) for st in ci.node.body if isinstance(st, ast.AnnAssign) and isinstance(st.target, ast.Name)]
        if flds and (ci.is_dataclass or any(b.rsplit(".", 1)[-1] == "NamedTuple" for b in ci.base_names)):
            return ("rec", ci, flds)
    return None


def _expr_kind(ctx: Ctx, f: FunctionInfo, e: Optional[ast.AST], at: int, depth: int = 0):  # type: ignore[no-untyped-def]
    """The annotation-derived kind of an expression (see _ann_kind), or ('none',) for the constant None."""
    if e is None or depth > 6:
        return None
    if isinstance(e, ast.Constant):
        if e.value is None:
            return ("none",)
        return ("num",) if isinstance(e.value, (int, float)) and not isinstance(e.value, bool) else None
    if isinstance(e, ast.Tuple):
        return ("tuple", [_expr_kind(ctx, f, x, at, depth + 1) for x in e.elts])
    if isinstance(e, ast.BoolOp) and isinstance(e.op, ast.Or):
        ks = [_expr_kind(ctx, f, x, at, depth + 1) for x in e.values]
        return _join_kinds(ks)
    if isinstance(e, ast.IfExp):
        return _join_kinds([_expr_kind(ctx, f, e.body, at, depth + 1), _expr_kind(ctx, f, e.orelse, at, depth + 1)])
    if isinstance(e, ast.Call):
        if isinstance(e.func, ast.Name) and e.func.id in _NUM_NAMES:
            return ("num",)
        try:
            cal = ctx.prog.resolve_call(e, f)
        except Exception:
            return None
        if cal.kind == "func" and cal.funcs and not isinstance(cal.funcs[0].node, ast.Lambda):
            ks = [_ann_kind(ctx, getattr(t.node, "returns", None)) for t in cal.funcs]
            return ks[0] if all(k == ks[0] or (k and ks[0] and k[0] == ks[0][0]) for k in ks) else None
        if cal.kind == "ctor" and cal.cls is not None:
            return _ann_kind(ctx, ast.Name(id=cal.cls.name, ctx=ast.Load()))
        return None
    if isinstance(e, ast.Attribute):
        base = _expr_kind(ctx, f, e.value, at, depth + 1)
        if base and base[0] == "rec":
            ann = next((a for n_, a in base[2] if n_ == e.attr), None)
            return _ann_kind(ctx, ann)
        return None
    if isinstance(e, ast.Subscript) and isinstance(e.slice, ast.Constant) and isinstance(e.slice.value, int):
        base = _expr_kind(ctx, f, e.value, at, depth + 1)
        if base and base[0] == "tuple" and 0 <= e.slice.value < len(base[1]):
            return base[1][e.slice.value]
        if base and base[0] == "rec" and 0 <= e.slice.value < len(base[2]):
            return _ann_kind(ctx, base[2][e.slice.value][1])
        return None
    if isinstance(e, ast.Name):
        g = ctx.cfg(f)
        defs = ctx.rd(f).reaching(at, e.id)
        if not defs:
            c = f.module.consts.get(e.id)
            return _expr_kind(ctx, f, c, at, depth + 1) if c is not None else None
        ks = []
        for d in defs:
            if d == g.entry:
                par = next((p_ for p_ in f.params if p_.name == e.id), None)
                ks.append(_ann_kind(ctx, par.ann) if par is not None else None)
                continue
            dn = g.nodes[d]
            st = dn.ast
            if dn.kind == "stmt" and isinstance(st, ast.Assign) and len(st.targets) == 1:
                tg = st.targets[0]
                if isinstance(tg, ast.Name) and tg.id == e.id:
                    k = _ann_kind(ctx, getattr(st, "_ann", None)) or _expr_kind(ctx, f, st.value, d, depth + 1)
                    ks.append(k)
                    continue
                if isinstance(tg, (ast.Tuple, ast.List)):
                    idx = next((i for i, t in enumerate(tg.elts) if isinstance(t, ast.Name) and t.id == e.id), None)
                    vk = _expr_kind(ctx, f, st.value, d, depth + 1)
                    if idx is not None and vk and vk[0] == "tuple" and idx < len(vk[1]):
                        ks.append(vk[1][idx])
                        continue
                    if idx is not None and vk and vk[0] == "rec" and idx < len(vk[2]):
                        ks.append(_ann_kind(ctx, vk[2][idx][1]))
                        continue
            ks.append(None)
        return _join_kinds(ks)
    return None


def _join_kinds(ks):  # type: ignore[no-untyped-def]
    real = [k for k in ks if k is not None and k[0] != "none"]
    if not real or any(k is None for k in ks):
        return ("none",) if ks and all(k is not None and k[0] == "none" for k in ks) else None
    if all(k[0] == "num" for k in real):
        return ("num",)
    if all(k[0] == "tuple" for k in real) and len({len(k[1]) for k in real}) == 1:
        n = len(real[0][1])
        nones = [k for k in ks if k is not None and k[0] == "none"]
        cols = []
        for i in range(n):
            cols.append(_join_kinds([k[1][i] for k in real] + [("none",)] * len(nones)))
        return ("tuple", cols)
    if all(k[0] == "rec" for k in real) and len({k[1].qname for k in real}) == 1:
        return real[0]
    if all(k[0] in ("rec", "tuple") for k in real):
        # a record OR a plain tuple of the same width (`hint() or (None, None)`): position-wise
        widths = {len(k[1]) if k[0] == "tuple" else len(k[2]) for k in real}
        if len(widths) == 1:
            n = widths.pop()
            cols = []
            for i in range(n):
                col = []
                for k in real:
                    col.append(k[1][i] if k[0] == "tuple" else _ann_kind_of_field(k, i))
                cols.append(_join_kinds(col))
            return ("tuple", cols)
    return None


def _ann_kind_of_field(k, i):  # type: ignore[no-untyped-def]
    ann = k[2][i][1]
    d = (dotted(ann) or "").split(".")[-1] if not isinstance(ann, ast.Subscript) else ""
    if d in _NUM_NAMES:
        return ("num",)
    if isinstance(ann, ast.Subscript) and (dotted(ann.value) or "").split(".")[-1] == "Optional" and (dotted(ann.slice) or "") in _NUM_NAMES:
        return ("num",)
    return None


def numbers_not_truth_tested(ctx: Ctx, rid: str, modules: Tuple[str, ...], what: str) -> None:
    ctx.rule(rid, f"zero is a value, not an absence ({what}): a number (by annotation: int / float / Optional of those, a numeric "
             "field of a NamedTuple / dataclass, an element of an annotated tuple result, int(..) / float(..)) is never used as a "
             "truth value - `if version and ..`, `timeout or DEFAULT`, `not seq` treat a legitimate 0 (version 0, timeout 0, "
             "grace 0, sequence 0) like None", 1)
    n_seen = 0
    for f in sorted(ctx.prog.functions.values(), key=lambda x: x.qname):
        if isinstance(f.node, ast.Lambda) or f.module.short not in modules:
            continue
        g = ctx.cfg(f)
        reach = g.reachable()
        bad = []
        seen_here = 0
        for n in g.nodes:
            if n.ast is None or n.id not in reach or n.kind not in ("stmt", "branch", "return", "call"):
                continue
            roots = [n.ast] if n.kind != "stmt" or not isinstance(n.ast, (ast.If, ast.While, ast.For, ast.With, ast.Try, ast.FunctionDef, ast.ClassDef)) else []
            for root in roots:
                tests = []
                if n.kind == "branch":
                    tests.append(root)
                for x in ast.walk(root):
                    if isinstance(x, ast.BoolOp):
                        tests += x.values[:-1] if isinstance(x.op, ast.Or) and n.kind != "branch" else x.values
                    elif isinstance(x, ast.UnaryOp) and isinstance(x.op, ast.Not):
                        tests.append(x.operand)
                    elif isinstance(x, ast.IfExp):
                        tests.append(x.test)
                    elif isinstance(x, ast.comprehension):
                        tests += x.ifs
                for t in tests:
                    if not isinstance(t, (ast.Name, ast.Attribute, ast.Subscript)):
                        continue
                    k = _expr_kind(ctx, f, t, n.id)
                    if k is not None and k[0] == "num":
                        seen_here += 1
                        key = (ctx.prog.anchor(f), norm_text(t))
                        if key in FALSY_ZERO_EXCEPTIONS:
                            continue
                        bad.append((n, norm_text(t)))
        n_seen += 1
        for n, txt in bad:
            ctx.ob(rid, f, "a number is compared, never truth-tested", n, False,
                   f"`{txt}` is a number (by annotation) used as a truth value in `{n.text[:70]}`: 0 is taken for 'absent'", text=txt)
        if not bad:
            ctx.ob(rid, f, "a number is compared, never truth-tested", None, True, "no numeric value is used as a truth value",
                   nontrivial=False, text="*")
    if n_seen == 0:
        raise AnalysisError(f"numbers_not_truth_tested: no function analysed in {modules}")


def module_const_value(ctx: Ctx, mod, e: Optional[ast.AST], depth: int = 0) -> Optional[object]:
    """A module-level constant expression as a str / int / float, or None: literals, other module constants, `+`, `%`-formatting,
    `.format(...)`, f-strings and str(..) over such values, and whatever module_const_number evaluates.  Nothing is executed."""
    if e is None or depth > 8:
        return None
    ev = lambda x: module_const_value(ctx, mod, x, depth + 1)  # noqa: E731
    if isinstance(e, ast.Constant):
        return e.value if isinstance(e.value, (str, int, float)) and not isinstance(e.value, bool) else None
    if isinstance(e, ast.Name):
        return ev(mod.consts[e.id]) if e.id in mod.consts else None
    if isinstance(e, ast.JoinedStr):
        out = []
        for part in e.values:
            if isinstance(part, ast.Constant):
                out.append(str(part.value))
            elif isinstance(part, ast.FormattedValue) and part.format_spec is None and part.conversion == -1:
                v = ev(part.value)
                if v is None:
                    return None
                out.append(str(v))
            else:
                return None
        return "".join(out)
    if isinstance(e, ast.BinOp) and isinstance(e.op, (ast.Add, ast.Mod)):
        l = ev(e.left)
        if isinstance(l, str):
            if isinstance(e.op, ast.Add):
                r = ev(e.right)
                return l + r if isinstance(r, str) else None
            args = [ev(x) for x in e.right.elts] if isinstance(e.right, ast.Tuple) else [ev(e.right)]
            if any(a is None for a in args):
                return None
            try:
                return l % (tuple(args) if isinstance(e.right, ast.Tuple) else args[0])
            except Exception:
                return None
    if isinstance(e, ast.Call) and isinstance(e.func, ast.Attribute) and e.func.attr == "format":
        t = ev(e.func.value)
        args = [ev(a) for a in e.args]
        kws = {k.arg: ev(k.value) for k in e.keywords if k.arg}
        if isinstance(t, str) and all(a is not None for a in args) and all(v is not None for v in kws.values()) and len(kws) == len(e.keywords):
            try:
                return t.format(*args, **kws)
            except Exception:
                return None
        return None
    if isinstance(e, ast.Call) and isinstance(e.func, ast.Name) and e.func.id == "str" and len(e.args) == 1:
        v = ev(e.args[0])
        return str(v) if v is not None else None
    if isinstance(e, ast.Call) and (dotted(e.func) or "") == "re.escape" and len(e.args) == 1 and not e.keywords:
        v = ev(e.args[0])
        import re as _re
        return _re.escape(v) if isinstance(v, str) else None
    return module_const_number(ctx, mod, e)


def temp_fd_writes(ctx: Ctx, f: FunctionInfo):  # type: ignore[no-untyped-def]
    """Writes of content into a descriptor-backed temp file of f, in both spellings: `os.write(fd, data)` and
    `with os.fdopen(fd, "wb") as fh: fh.write(data)`.  Returns [(write node, descriptor expression, flush nodes)]: for the
    buffered spelling the data reaches the kernel only at `fh.flush()` / close, so the flushes of the same file object are
    reported with it (an fsync of `fh.fileno()` that no flush dominates syncs an empty file)."""
    g = ctx.cfg(f)
    sl = ctx.slicer(f)
    out = []
    for n in g.calls():
        if n.callee is not None and n.callee.kind == "prim" and n.callee.name == "os.write" and isinstance(n.ast, ast.Call) and n.ast.args:
            out.append((n, n.ast.args[0], None))
    for n in g.calls():
        a = n.ast
        if not (isinstance(a, ast.Call) and isinstance(a.func, ast.Attribute) and a.func.attr in ("write", "writelines") and isinstance(a.func.value, ast.Name)):
            continue
        recv = a.func.value
        opens = [c for c in sl.origins(recv, n.id)["calls"] if isinstance(c, ast.Call) and (dotted(c.func) or "") == "os.fdopen" and c.args]
        if not opens:
            continue
        flushes = [m for m in g.calls() if isinstance(m.ast, ast.Call) and isinstance(m.ast.func, ast.Attribute) and m.ast.func.attr == "flush"
                   and isinstance(m.ast.func.value, ast.Name) and m.ast.func.value.id == recv.id]
        out.append((n, opens[0].args[0], flushes))
    return out


def value_signature(ctx: Ctx, f: FunctionInfo, e: Optional[ast.AST], at: int, depth: int = 0) -> frozenset:
    """What an expression denotes, spelled over the function's roots (parameters, attributes, calls): local names are expanded
    through their reaching definitions and through helpers analysed in place, the alpha-renaming suffixes are dropped.  Two
    expressions with one and the same single signature denote the same value (`path` and `f"{self.dir}/{name}"` rebuilt in
    another helper from the same `name`)."""
    import re as _re
    if e is None or depth > 5:
        return frozenset({"?"})
    g = ctx.cfg(f)
    outs = set()
    for src, sat in resolve_value(ctx, f, e, at):
        if src is None:
            outs.add("?")
            continue
        if isinstance(src, ast.Name):
            defs = ctx.rd(f).reaching(sat, src.id)
            if not defs or g.entry in defs or depth > 4:
                outs.add(_re.sub(r"__i\d+", "", src.id))
                continue
        import copy
        tree = copy.deepcopy(src)
        parts = {}
        for x in ast.walk(src):
            if isinstance(x, ast.Name) and isinstance(x.ctx, ast.Load) and x.id not in parts and x is not src:
                defs = ctx.rd(f).reaching(sat, x.id)
                if defs and g.entry not in defs:
                    sig = value_signature(ctx, f, x, sat, depth + 1)
                    if len(sig) == 1:
                        parts[x.id] = next(iter(sig))
        text = norm_text(tree)
        for nm, sig in sorted(parts.items(), key=lambda kv: -len(kv[0])):
            text = _re.sub(r"(?<![\w.])" + _re.escape(nm) + r"(?![\w])", "(" + sig + ")", text)
        outs.add(_re.sub(r"__i\d+", "", text))
    return frozenset(outs)


def same_value(ctx: Ctx, f: FunctionInfo, e1: Optional[ast.AST], at1: int, e2: Optional[ast.AST], at2: int) -> bool:
    a, b = value_signature(ctx, f, e1, at1), value_signature(ctx, f, e2, at2)
    return len(a) == 1 and a == b and "?" not in a


def is_canonical_base_call(ctx: Ctx, f: FunctionInfo, x: ast.AST) -> bool:
    """Is `x` a FRESH computation of the local backend's canonical root - found by role, not by name: a call of a parameterless
    method whose every return is os.path.realpath(<self>.base_path), or os.path.realpath(<obj>.base_path) itself (the helper
    analysed in place)?  A value read from an attribute stored earlier is not (it is as old as the store)."""
    if not isinstance(x, ast.Call):
        return False
    def realpath_of_base(e: Optional[ast.AST]) -> bool:
        return isinstance(e, ast.Call) and (dotted(e.func) or "") in ("os.path.realpath",) and len(e.args) == 1 and not e.keywords \
            and isinstance(e.args[0], ast.Attribute) and e.args[0].attr == "base_path"
    if realpath_of_base(x):
        return True
    cal = next((n_.callee for n_ in ctx.cfg(f).calls() if n_.ast is x and n_.callee is not None), None)  # (resolved in the helper's own context)
    if cal is None:
        try:
            cal = ctx.prog.resolve_call(x, f)
        except Exception:
            return False
    if cal is None or cal.kind != "func" or not cal.funcs:
        return False
    for t in cal.funcs:
        if isinstance(t.node, ast.Lambda) or [p_ for p_ in t.params if p_.name not in ("self", "cls")]:
            return False
        rets = effective_returns(ctx, t)
        if not rets:
            return False
        for r, v in rets:
            srcs = resolve_value(ctx, t, v, r.id)
            if not srcs or not all(realpath_of_base(src) for src, _at in srcs):
                return False
    return True


def loop_early_exits(g: CFG, lp: Node) -> List[Tuple[int, int]]:
    """Normal edges that leave the body of loop `lp` other than through the loop head (break / return / the end of a helper
    analysed in place): [(from node, to node)].  Raising edges are not exits of this kind."""
    inside = {n.id for n in g.nodes if any(fr.kind == "loop" and fr.node is lp.ast for fr in n.frames)}
    out = []
    for nid in inside:
        if nid not in g.reachable():
            continue
        for d, l in g.succ[nid]:
            if l not in NORMAL:
                continue
            t, hops = d, 0
            while g.nodes[t].kind == "join" and hops < 8:  # (join nodes carry no frames of their own)
                nx = [x for x, l2 in g.succ[t] if l2 in NORMAL]
                if len(nx) != 1:
                    break
                t, hops = nx[0], hops + 1
            if t not in inside and t != lp.id:
                out.append((nid, d))
    return out


def no_shared_mutable_class_state(ctx: Ctx, rid: str, why: str) -> None:
    """Shared by every property whose values are accumulated per object: a dict / list / set created ONCE in a class body and
    then filled through `self.<name>[k] = v` / `self.<name>.append(..)` is one object shared by all instances - what one file /
    transaction / snapshot records is seen by the next.  (A class-level collection that is never mutated through an instance,
    or that every constructor re-binds, is a constant / a default.)"""
    ctx.rule(rid, "no per-object state lives in a class-level mutable: a dict / list / set display in a class body that methods "
             "fill through `self` is shared by all instances - " + why, 1)
    MUT = ("append", "extend", "add", "update", "setdefault", "pop", "clear", "insert", "remove", "discard", "popitem")
    n_cls = 0
    anchor = None
    for ci in sorted(ctx.prog.classes.values(), key=lambda c: c.qname):
        n_cls += 1
        node = getattr(ci, "node", None)
        if node is None:
            continue
        for st in node.body:
            tgt = st.targets[0] if isinstance(st, ast.Assign) and len(st.targets) == 1 else (st.target if isinstance(st, ast.AnnAssign) else None)
            val = getattr(st, "value", None)
            if not isinstance(tgt, ast.Name) or val is None:
                continue
            mutable = isinstance(val, (ast.Dict, ast.List, ast.Set, ast.DictComp, ast.ListComp, ast.SetComp)) or (
                isinstance(val, ast.Call) and isinstance(val.func, ast.Name) and val.func.id in ("dict", "list", "set", "defaultdict", "OrderedDict", "deque"))
            if not mutable:
                continue
            name = tgt.id
            muts, rebinds = [], []
            for m in ci.methods.values():
                sn = m.self_name()
                if not sn:
                    continue
                for x in ast.walk(m.node):
                    if isinstance(x, ast.Subscript) and isinstance(x.ctx, (ast.Store, ast.Del)) and isinstance(x.value, ast.Attribute) \
                            and x.value.attr == name and isinstance(x.value.value, ast.Name) and x.value.value.id == sn:
                        muts.append((m, x))
                    if isinstance(x, ast.Call) and isinstance(x.func, ast.Attribute) and x.func.attr in MUT and isinstance(x.func.value, ast.Attribute) \
                            and x.func.value.attr == name and isinstance(x.func.value.value, ast.Name) and x.func.value.value.id == sn:
                        muts.append((m, x))
                    if isinstance(x, ast.Attribute) and isinstance(x.ctx, ast.Store) and x.attr == name and isinstance(x.value, ast.Name) \
                            and x.value.id == sn and m.name in ("__init__", "__post_init__", "__new__"):
                        rebinds.append(m)
            if muts and not rebinds:
                m0, x0 = muts[0]
                anchor = anchor or m0
                ctx.ob(rid, m0, f"{ci.name}.{name} is per-instance state", None, False,
                       f"`{name} = {norm_text(val)[:20]}` in the body of class {ci.name} is ONE object; `{norm_text(x0)[:50]}` "
                       f"({m0.file}:{getattr(x0, 'lineno', m0.lineno)}) fills it through self, so every instance sees (and returns) what the "
                       "previous ones recorded", text=f"{ci.name}.{name}", line=getattr(x0, "lineno", None))
    any_fn = next(iter(sorted(ctx.prog.functions.values(), key=lambda x: x.qname)))
    ctx.ob(rid, any_fn, "classes examined", None, n_cls >= 10, f"{n_cls} classes", nontrivial=False, text="classes")


def none_inline_return_edges(ctx: Ctx, f: FunctionInfo, target: Node) -> Set[Tuple[int, int]]:
    """The mirror image of nonnull_inline_return_edges:

        x = self._helper(...)        # analysed in place; `return None` on some paths, a value on others
        if x is None: return ...     # (or `if x is not None: <target>`)
        <target>

    When `target` is only reachable through the NOT-None edge of a None-test on the helper's result, the paths that leave the
    helper through `return None` (or fall off its end) are infeasible: the edges out of those return sites are returned."""
    g = ctx.cfg(f)
    dom = ctx.dom(f, ALL)
    out: Set[Tuple[int, int]] = set()
    rd = ctx.rd(f)
    for b in g.nodes:
        if b.kind != "branch" or b.id not in dom[target.id]:
            continue
        t_ = b.ast
        var = None
        none_label = None
        if isinstance(t_, ast.Compare) and len(t_.ops) == 1 and isinstance(t_.left, ast.Name) \
                and isinstance(t_.comparators[0], ast.Constant) and t_.comparators[0].value is None:
            var, none_label = t_.left.id, ("true" if isinstance(t_.ops[0], (ast.Is, ast.Eq)) else "false")
        if var is None:
            continue
        nt = edge_target(g, b, none_label)
        ot = edge_target(g, b, "false" if none_label == "true" else "true")
        if ot is None or target.id not in reachable_from(g, ot, NORMAL) or (nt is not None and target.id in reachable_from(g, nt, NORMAL)):
            continue
        for d in rd.reaching(b.id, var):
            dn = g.nodes[d]
            val = dn.ast.value if d != g.entry and isinstance(dn.ast, ast.Assign) else None
            if isinstance(val, ast.Call) and id(val) in g.inline_returns:
                for e_, n_ in g.inline_returns[id(val)]:
                    if e_ is None or (isinstance(e_, ast.Constant) and e_.value is None):
                        out |= {(n_, x) for x, l in g.succ[n_] if l in NORMAL}
    return out


def reachable_excluding(g: CFG, start: int, dead: Set[Tuple[int, int]], labels: Set[str] = NORMAL) -> Set[int]:
    seen: Set[int] = set()
    work = [start]
    while work:
        x = work.pop()
        if x in seen:
            continue
        seen.add(x)
        work += [d for d, l in g.succ[x] if l in labels and (x, d) not in dead]
    return seen


def memo_key_covers_computation(ctx: Ctx, rid: str, modules: Tuple[str, ...], why: str) -> None:
    """A memo consulted instead of a read (`c = self.<memo>.get(key)` / `self.<memo>[key]` / `key in self.<memo>` in a function
    that also performs the computation on a miss) must be keyed by everything that selects WHAT is computed: every parameter of
    the function that reaches the arguments of the computation is part of the key expression (directly or through locals).
    A parsed-metadata cache keyed by the version number while the file read is selected by the unique file name serves the
    wrong file when two committers wrote different files for one version."""
    ctx.rule(rid, "a memo consulted instead of a read is keyed by everything that selects what is read: each parameter of the "
             "memoising function that reaches the arguments of the computation on a miss also reaches the key " + why, 0)
    n = 0
    for f in package_functions(ctx, modules):
        node = f.node
        if isinstance(node, ast.Lambda) or f.self_name() is None:
            continue
        me = f.self_name()
        params = {p_.name for p_ in f.params if p_.name != me}
        if not params:
            continue
        own = [x for st in f.body() for x in ast.walk(st)]
        # local -> parameters it derives from (flow-insensitive, assignments only)
        deps: Dict[str, Set[str]] = {p_: {p_} for p_ in params}
        for _round in range(4):
            for x in own:
                if isinstance(x, ast.Assign):
                    src = set().union(*[deps.get(nm, set()) for nm in names_in(x.value)]) if names_in(x.value) else set()
                    for t in x.targets:
                        for tn in ([t] if isinstance(t, ast.Name) else [e_ for e_ in getattr(t, "elts", []) if isinstance(e_, ast.Name)]):
                            deps[tn.id] = deps.get(tn.id, set()) | src

        def pdeps(e: ast.AST) -> Set[str]:
            return set().union(*[deps.get(nm, set()) for nm in names_in(e)]) if names_in(e) else set()

        memos: Dict[str, List[ast.AST]] = {}
        for x in own:
            key = None
            base = None
            if isinstance(x, ast.Call) and isinstance(x.func, ast.Attribute) and x.func.attr == "get" and x.args:
                base, key = x.func.value, x.args[0]
            elif isinstance(x, ast.Subscript) and isinstance(x.ctx, ast.Load):
                base, key = x.value, x.slice
            elif isinstance(x, ast.Compare) and len(x.ops) == 1 and isinstance(x.ops[0], (ast.In, ast.NotIn)):
                base, key = x.comparators[0], x.left
            if base is not None and isinstance(base, ast.Attribute) and isinstance(base.value, ast.Name) and base.value.id == me \
                    and key is not None and pdeps(key):
                memos.setdefault(base.attr, []).append(key)
        for attr, keys in memos.items():
            # it is a memo only if the same function also STORES into it (directly or by handing key + value to a method) ...
            stores = [x for x in own if isinstance(x, ast.Assign) and any(
                isinstance(t, ast.Subscript) and isinstance(t.value, ast.Attribute) and t.value.attr == attr for t in x.targets)]
            key_params = set().union(*[pdeps(k) for k in keys])
            # ... the computation on a miss: calls on self (not on the memo) whose arguments derive from parameters
            comp = [x for x in own if isinstance(x, ast.Call) and isinstance(x.func, ast.Attribute) and isinstance(x.func.value, ast.Name)
                    and x.func.value.id == me and pdeps(x) and not (pdeps(x) <= key_params)]
            if not comp:
                continue
            if not stores and not any(isinstance(x, ast.Call) and isinstance(x.func, ast.Attribute) and isinstance(x.func.value, ast.Name)
                                      and x.func.value.id == me and any(norm_text(a_) in {norm_text(k) for k in keys} for a_ in x.args)
                                      for x in own):
                continue
            n += 1
            missing = sorted(set().union(*[pdeps(x) for x in comp]) - key_params)
            ctx.ob(rid, f, f"memo self.{attr} is keyed by what selects the computation", None, not missing,
                   f"key derives from {sorted(key_params)}; the computation on a miss also depends on {missing}: two different "
                   f"inputs share one entry - the second is answered with the first one's result", text=f"{f.name}:{attr}")
    ctx.ob(rid, None, "memos censused", None, True, f"{n} memo(s) whose miss path depends on more than the key", nontrivial=False)
