"""Helpers shared by the per-property rule modules."""
from __future__ import annotations

import ast
from typing import Dict, Iterable, List, Optional, Sequence, Set, Tuple

from ..cfg import CFG, EXC, NORMAL, Frame, Node, handler_classes
from ..core import Ctx
from ..effects import STORAGE_READS, STORAGE_WRITES
from ..flow import ALL, find_path, names_in
from ..model import AnalysisError, FunctionInfo, dotted, norm_text


# ------------------------------------------------------------------ handlers
def handler_nodes(ctx: Ctx, f: FunctionInfo) -> List[Node]:
    g = ctx.cfg(f)
    seen = set()
    out = []
    for n in g.nodes:
        if n.kind == "handler" and id(n.ast) not in seen:
            seen.add(id(n.ast))
            out.append(n)
    return out


def in_handler(n: Node, h: ast.ExceptHandler) -> bool:
    return any(fr.kind == "try" and fr.part == "handler" and fr.handler is h for fr in n.frames)


def in_try_body(n: Node, t: ast.AST) -> bool:
    return any(fr.kind == "try" and fr.part == "body" and fr.node is t for fr in n.frames)


def handler_exits(ctx: Ctx, f: FunctionInfo, hn: Node) -> Dict[str, List[Node]]:
    """How control leaves a handler: {'raise': [...], 'fallthrough': [...first nodes outside...],
    'return': [...], 'loop': [...]} following NORMAL edges from the handler node."""
    g = ctx.cfg(f)
    h = hn.ast
    assert isinstance(h, ast.ExceptHandler)
    res: Dict[str, List[Node]] = {"raise": [], "fallthrough": [], "return": [], "loop": []}
    seen = {hn.id}
    st = [hn.id]
    while st:
        cur = st.pop()
        node = g.nodes[cur]
        if node.kind == "raise":
            res["raise"].append(node)
            continue
        for d, l in g.succ[cur]:
            if l not in NORMAL:
                continue
            dn = g.nodes[d]
            if in_handler(dn, h) or (dn.kind == "finally" and False):
                if d not in seen:
                    seen.add(d)
                    st.append(d)
                continue
            # leaving the handler
            if node.kind == "return":
                res["return"].append(node)
            elif l == "back" or (isinstance(node.ast, (ast.Continue, ast.Break))):
                res["loop"].append(node)
            else:
                res["fallthrough"].append(node)
    return res


def handler_always_raises(ctx: Ctx, f: FunctionInfo, hn: Node) -> bool:
    ex = handler_exits(ctx, f, hn)
    return bool(ex["raise"]) and not (ex["fallthrough"] or ex["return"] or ex["loop"])


def try_body_calls(ctx: Ctx, f: FunctionInfo, t: ast.AST) -> List[Node]:
    return [n for n in ctx.cfg(f).calls() if in_try_body(n, t)]


def callee_names(n: Node) -> List[str]:
    c = n.callee
    if c is None:
        return []
    if c.kind in ("func", "ctor"):
        return [t.name for t in c.funcs] or ([c.cls.name] if c.cls else [])
    return [c.name]


def guarded_names(ctx: Ctx, f: FunctionInfo, t: ast.AST) -> List[str]:
    """Sorted names of what a try body calls (role description of a handler, format independent)."""
    names: Set[str] = set()
    for n in try_body_calls(ctx, f, t):
        for nm in callee_names(n):
            if not nm.startswith(("logging.", "builtins.")):
                names.add(nm.split(".")[-1] if nm.startswith(("method.", "str.", "list.", "dict.", "set.", "bytes.")) else nm)
    return sorted(names)


def handler_key(ctx: Ctx, f: FunctionInfo, hn: Node) -> str:
    h = hn.ast
    assert isinstance(h, ast.ExceptHandler)
    t = hn.stmt
    return f"except({','.join(handler_classes(h))}) guarding [{','.join(guarded_names(ctx, f, t))}]"


# --------------------------------------------------------------- commit point
def hint_value(ctx: Ctx) -> str:
    mm = ctx.prog.cls("metadata_manager.MetadataManager")
    v = ctx.prog.const_str(mm.consts.get("HINT_PATH"), mm.module)
    if not v:
        raise AnalysisError("anchor vanished: MetadataManager.HINT_PATH constant")
    return v


def path_arg(n: Node) -> Optional[ast.AST]:
    a = n.ast
    if isinstance(a, ast.Call):
        if a.args:
            return a.args[0]
        for k in a.keywords:
            if k.arg in ("path", "file_path", "prefix"):
                return k.value
    return None


def hint_write_nodes(ctx: Ctx, f: FunctionInfo) -> List[Node]:
    """Storage write calls in f whose path argument is the version-hint constant."""
    hv = hint_value(ctx)
    out = []
    for n in ctx.cfg(f).calls():
        op = ctx.eff.storage_op(n)
        if op in STORAGE_WRITES:
            s = ctx.prog.const_str(path_arg(n), f.module, f)
            if s == hv:
                out.append(n)
    return out


def hint_writers(ctx: Ctx) -> List[FunctionInfo]:
    out = [f for f in ctx.prog.functions.values() if hint_write_nodes(ctx, f)]
    return out


def reaches_any(ctx: Ctx, f: FunctionInfo, n: Node, targets: Set[str]) -> bool:
    return ctx.eff.reaches_function(f, targets, n)


def normal_continuation(ctx: Ctx, f: FunctionInfo, start: Node) -> List[Node]:
    """Nodes executed after `start` completes normally, up to the function exit (NORMAL edges)."""
    g = ctx.cfg(f)
    seen: Set[int] = set()
    st = [d for d, l in g.succ[start.id] if l in NORMAL]
    out = []
    while st:
        c = st.pop()
        if c in seen:
            continue
        seen.add(c)
        out.append(g.nodes[c])
        for d, l in g.succ[c]:
            if l in NORMAL and d not in seen:
                st.append(d)
    return out


def escaping_after(ctx: Ctx, f: FunctionInfo, start: Node, stop_at: Optional[Set[int]] = None) -> List[Tuple[Node, List[str]]]:
    """Nodes on the normal continuation of `start` that may raise an exception which is not
    absorbed (caught without re-raise) inside f: [(node, classes)]."""
    bad = []
    for n in normal_continuation(ctx, f, start):
        if stop_at and n.id in stop_at:
            continue
        rs = ctx.eff.raises_at(f, n)
        if not rs:
            continue
        esc, caught = ctx.eff.propagate(f, rs, n.frames, record=False)
        if esc:
            bad.append((n, sorted(esc)))
            continue
        # caught: the catching handlers must not re-raise
        g = ctx.cfg(f)
        for h, _c in caught:
            hn = next((x for x in g.nodes if x.kind == "handler" and x.ast is h), None)
            if hn is not None and handler_exits(ctx, f, hn)["raise"]:
                bad.append((n, [f"re-raised by except {','.join(handler_classes(h))}"]))
                break
    return bad


def branch_nodes(ctx: Ctx, f: FunctionInfo, mention: str) -> List[Node]:
    return [n for n in ctx.cfg(f).nodes if n.kind == "branch" and n.ast is not None and mention in names_in(n.ast)
            or (n.kind == "branch" and n.ast is not None and mention in norm_text(n.ast))]


def edge_target(g: CFG, n: Node, label: str) -> Optional[int]:
    for d, l in g.succ[n.id]:
        if l == label:
            return d
    return None


def reachable_from(g: CFG, start: int, labels: Set[str] = NORMAL, avoid: Iterable[int] = ()) -> Set[int]:
    av = set(avoid)
    seen = {start}
    st = [start]
    while st:
        c = st.pop()
        for d, l in g.succ[c]:
            if l in labels and d not in seen and d not in av:
                seen.add(d)
                st.append(d)
    return seen


def kwarg(call: ast.AST, name: str, pos: Optional[int] = None) -> Optional[ast.AST]:
    if not isinstance(call, ast.Call):
        return None
    for k in call.keywords:
        if k.arg == name:
            return k.value
    if pos is not None and pos < len(call.args):
        return call.args[pos]
    return None


def is_const(e: Optional[ast.AST], value: object) -> bool:
    return isinstance(e, ast.Constant) and e.value is value


def loc(f: FunctionInfo, n: Optional[Node]) -> str:
    return f"{f.file}:{n.lineno if n is not None else f.lineno}"


def package_functions(ctx: Ctx, modules: Sequence[str]) -> List[FunctionInfo]:
    return [f for f in ctx.prog.functions.values() if f.module.short in modules]


def fold_str(ctx: Ctx, f: FunctionInfo, e: Optional[ast.AST], at: int, depth: int = 0) -> Optional[str]:
    """Constant-fold a path expression through module/class constants AND local single-definition
    variables (reaching definitions).  Unknown parts become \x00."""
    if e is None or depth > 6:
        return None
    s = ctx.prog.const_str(e, f.module, f)
    if s is not None and "\x00" not in s:
        return s
    g = ctx.cfg(f)
    if isinstance(e, ast.Name):
        defs = ctx.rd(f).reaching(at, e.id)
        vals = set()
        for d in defs:
            if d == g.entry:
                return None
            dn = g.nodes[d]
            from ..flow import rhs_of
            vals.add(fold_str(ctx, f, rhs_of(dn, e.id), d, depth + 1))
        if len(vals) == 1:
            return vals.pop()
        return None
    if isinstance(e, ast.JoinedStr):
        out = []
        for v in e.values:
            if isinstance(v, ast.Constant):
                out.append(str(v.value))
            elif isinstance(v, ast.FormattedValue):
                x = fold_str(ctx, f, v.value, at, depth + 1)
                out.append(x if x is not None else "\x00")
        return "".join(out)
    if isinstance(e, ast.BinOp) and isinstance(e.op, ast.Add):
        l, r = fold_str(ctx, f, e.left, at, depth + 1), fold_str(ctx, f, e.right, at, depth + 1)
        if l is None and r is None:
            return None
        return (l if l is not None else "\x00") + (r if r is not None else "\x00")
    return s


def cleanup_in_reraising_handler(ctx: Ctx, f: FunctionInfo, hn: Node) -> bool:
    """Is this handler part of best-effort cleanup nested inside an outer handler that re-raises on every path?"""
    g = ctx.cfg(f)
    for fr in reversed(hn.frames):
        if fr.kind == "try" and fr.part == "handler" and fr.handler is not None:
            outer = next((x for x in g.nodes if x.kind == "handler" and x.ast is fr.handler), None)
            if outer is not None and handler_always_raises(ctx, f, outer):
                return True
    return False
