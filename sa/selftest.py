"""Section 6 of DESIGN.md - test the checkers both ways.

Each MUTANT is an exact-string edit applied to a scratch copy of src/datashard (under $TMPDIR, outside /repo and /verif,
removed immediately).  The mutant must still byte-compile, and the named rule of the named property must report a
violation.  Each BENIGN variant (behaviour-preserving edit) must leave the property's check silent.
A mutant whose `old` text no longer occurs in the tree is reported as `stale` (the corpus must be refreshed) - it is
not counted as caught."""
from __future__ import annotations

import os
import shutil
import sys
import tempfile
from concurrent.futures import ProcessPoolExecutor
from typing import Dict, List, Optional, Tuple

sys.path.insert(0, os.path.dirname(os.path.dirname(os.path.abspath(__file__))))

from sa.corpus import BENIGN, MUTANTS  # noqa: E402


def _apply(root: str, edits: List[Tuple[str, str, str]]) -> Optional[str]:
    for fn, old, new in edits:
        p = os.path.join(root, "src", "datashard", fn)
        with open(p) as f:
            s = f.read()
        if s.count(old) < 1:
            return f"stale: `{old[:60]}` not found in {fn}"
        s = s.replace(old, new, 1)
        try:
            compile(s, p, "exec")
        except SyntaxError as e:
            return f"mutant does not compile: {e}"
        with open(p, "w") as f:
            f.write(s)
    return None


def run_one(args: Tuple[str, Dict[str, object]]) -> Dict[str, object]:
    repo, m = args
    from sa import rules as registry
    from sa.core import Ctx, run_property
    from sa.model import AnalysisError
    tmp = tempfile.mkdtemp(prefix="sa_selftest_")
    try:
        os.makedirs(os.path.join(tmp, "src"))
        shutil.copytree(os.path.join(repo, "src", "datashard"), os.path.join(tmp, "src", "datashard"),
                        ignore=shutil.ignore_patterns("__pycache__"))
        err = None
        if m.get("patch"):
            import subprocess
            pr = subprocess.run(["git", "apply", "--unsafe-paths", "--directory=" + tmp, str(m["patch"])], cwd=tmp,
                                capture_output=True, text=True)
            if pr.returncode != 0:
                pr = subprocess.run(["patch", "-p1", "-s", "-i", str(m["patch"])], cwd=tmp, capture_output=True, text=True)
            if pr.returncode != 0:
                err = "stale: seeded patch no longer applies: " + (pr.stderr or pr.stdout)[-120:]
        else:
            err = _apply(tmp, m["edits"])  # type: ignore[arg-type]
        if err:
            return {"id": m["id"], "status": "stale" if err.startswith("stale") else "broken", "detail": err}
        pid = str(m["prop"])
        mod = registry.load(pid)
        try:
            code, viol, _ctx = run_property(pid, "quick", tmp, mod.check, mod.EXPLANATION, mod.NOT_DECIDED,
                                            write_evidence=False, quiet=True)
        except AnalysisError as e:
            return {"id": m["id"], "status": "analysis-error", "detail": str(e)[:200], "rules": []}
        except Exception as e:  # an engine crash on a variant is a checker defect: report it, do not abort the whole run
            return {"id": m["id"], "status": "engine-crash", "detail": repr(e)[:200], "rules": []}
        rules = sorted({v.rule for v in viol})
        return {"id": m["id"], "status": "fired" if code == 1 else "silent", "rules": rules,
                "detail": "; ".join(f"{v.rule}@{v.file.split('/')[-1]}:{v.line}" for v in viol[:4])}
    finally:
        shutil.rmtree(tmp, ignore_errors=True)


def seeded_items(prop: Optional[str]) -> List[Dict[str, object]]:
    """The confirmed seeded changes of /verif/seeded (independent authors) as additional must-fire items."""
    import glob
    import json
    out: List[Dict[str, object]] = []
    root = os.path.join(os.path.dirname(os.path.dirname(os.path.abspath(__file__))), "seeded")
    for mf in sorted(glob.glob(os.path.join(root, "*", "meta.json"))):
        with open(mf) as fh:
            m = json.load(fh)
        if prop is not None and m.get("property") != prop:
            continue
        if m.get("open"):
            continue  # recorded as NOT decided today (meta.json says why); listed in DESIGN, never counted as caught
        out.append({"id": "seed-" + m["id"], "prop": m["property"], "rule": m["property"] + ".", "what": (m.get("summary") or "")[:80],
                    "patch": os.path.join(os.path.dirname(mf), "patch.diff"), "edits": []})
    return out


def variant_items(prop: Optional[str]) -> List[Dict[str, object]]:
    """/verif/variants: a behaviour-preserving refactoring of /verif/benign with ONE breaking mutation on top (mine): the
    generalised rule forms (tables, expression forms, moved functions) must still fire."""
    import glob
    import json
    out: List[Dict[str, object]] = []
    root = os.path.join(os.path.dirname(os.path.dirname(os.path.abspath(__file__))), "variants")
    for mf in sorted(glob.glob(os.path.join(root, "*", "meta.json"))):
        with open(mf) as fh:
            m = json.load(fh)
        if prop is not None and m.get("property") != prop:
            continue
        out.append({"id": "variant-" + m["id"], "prop": m["property"], "rule": m["property"] + ".", "what": (m.get("summary") or "")[:80],
                    "patch": os.path.join(os.path.dirname(mf), "patch.diff"), "edits": []})
    return out


def benign_patch_items(prop: Optional[str]) -> List[Dict[str, object]]:
    """The behaviour-preserving refactorings of /verif/benign (independent authors; suite re-run by me: 143 passed each)
    as additional must-stay-silent items - every patch against every property."""
    import glob
    from sa import rules as registry
    out: List[Dict[str, object]] = []
    root = os.path.join(os.path.dirname(os.path.dirname(os.path.abspath(__file__))), "benign")
    props = [prop] if prop is not None else list(registry.PROPS)
    import json
    for pf in sorted(glob.glob(os.path.join(root, "*", "patch.diff"))):
        bid = os.path.basename(os.path.dirname(pf))
        try:
            with open(os.path.join(os.path.dirname(pf), "meta.json")) as fh:
                if json.load(fh).get("status") == "open-false-alarm":
                    continue  # a refactoring the rules still (wrongly) report: listed in DESIGN.md 9.9, not a regression item
        except Exception:
            pass
        for p in props:
            out.append({"id": f"refactor-{bid}@{p}", "prop": p, "patch": pf, "edits": [], "kind": "benign",
                        "what": "behaviour-preserving refactoring " + bid})
    return out


def selftest(repo: str = "/repo", prop: Optional[str] = None, jobs: int = 16) -> Tuple[bool, List[Dict[str, object]]]:
    items: List[Dict[str, object]] = []
    for m in seeded_items(prop) + variant_items(prop):
        items.append(dict(m, kind="mutant"))
    for m in MUTANTS:
        if prop is None or m["prop"] == prop:
            items.append(dict(m, kind="mutant"))
    for b in BENIGN:
        if prop is None or prop in b["props"]:  # type: ignore[operator]
            for p in (b["props"] if prop is None else [prop]):  # type: ignore[union-attr]
                items.append(dict(b, prop=p, kind="benign", id=f"{b['id']}@{p}"))
    items.extend(benign_patch_items(prop))
    results: List[Dict[str, object]] = []
    with ProcessPoolExecutor(max_workers=jobs) as ex:
        for it, r in zip(items, ex.map(run_one, [(repo, it) for it in items])):
            r["kind"] = it["kind"]
            r["prop"] = it["prop"]
            r["expect_rule"] = it.get("rule")
            r["what"] = it.get("what", "")
            if it["kind"] == "mutant":
                want = str(it["rule"])
                rules = r.get("rules") or []
                # shared rules are re-labelled per property (C03.R1 == C02.R3a == C16.R4): accept the expected id
                r["ok"] = r["status"] == "fired" and (want in rules or any(x.startswith(want) for x in rules))  # type: ignore[union-attr]
            else:
                r["ok"] = r["status"] == "silent"
            results.append(r)
    ok = all(r["ok"] or r["status"] == "stale" for r in results)
    return ok, results


def main() -> int:
    import argparse
    ap = argparse.ArgumentParser()
    ap.add_argument("--property", "-p")
    ap.add_argument("--repo", default="/repo")
    ap.add_argument("--jobs", type=int, default=16)
    a = ap.parse_args()
    ok, res = selftest(a.repo, a.property, a.jobs)
    for r in res:
        flag = "ok " if r["ok"] else ("STALE" if r["status"] == "stale" else "FAIL")
        print(f"{flag} {r['kind']:6s} {r['id']:34s} {r['status']:14s} expect={r.get('expect_rule')} got={r.get('rules')} {str(r.get('detail'))[:90]}")
    n_m = sum(1 for r in res if r["kind"] == "mutant")
    print(f"mutants: {sum(1 for r in res if r['kind'] == 'mutant' and r['ok'])}/{n_m} caught; "
          f"benign: {sum(1 for r in res if r['kind'] == 'benign' and r['ok'])}/{sum(1 for r in res if r['kind'] == 'benign')} silent; "
          f"stale: {sum(1 for r in res if r['status'] == 'stale')}")
    return 0 if ok else 1


if __name__ == "__main__":
    sys.exit(main())
