"""Thorough tier: quick rules + (a) mypy cross-validation of every method-call edge the engine resolved,
(b) the property's checker self-test (mutants must fire, benign variants must stay silent), (c) a whole-package
reformat (ast.unparse round trip) on a scratch copy that must leave the verdict unchanged."""
from __future__ import annotations

import ast
import json
import os
import shutil
import sys
import tempfile
import time
from typing import Dict, List, Optional, Set, Tuple

from .core import Ctx, run_property, write_evidence_file
from .model import AnalysisError, PKG


def mypy_receiver_types(repo: str) -> Optional[Dict[Tuple[str, int, int], str]]:
    """{(module file, line, col of the receiver expression): mypy class fullname} or None when mypy is unavailable."""
    try:
        from mypy import build as mbuild
        from mypy.find_sources import create_source_list
        from mypy.options import Options
        import mypy.nodes as mn
        import mypy.types as mt
    except Exception:
        return None
    cwd = os.getcwd()
    os.chdir(os.path.join(repo, "src"))
    try:
        opts = Options()
        opts.preserve_asts = True
        opts.export_types = True
        opts.incremental = False
        opts.cache_dir = os.devnull
        opts.ignore_missing_imports = True
        opts.follow_imports = "silent"
        srcs = create_source_list([PKG], opts)
        res = mbuild.build(srcs, opts)
    except Exception as e:  # pragma: no cover
        os.chdir(cwd)
        raise AnalysisError(f"mypy build failed: {e}")
    os.chdir(cwd)
    out: Dict[Tuple[str, int, int], str] = {}
    types = res.types
    for modname, st in res.graph.items():
        if not modname.startswith(PKG) or st.tree is None:
            continue
        fn = os.path.basename(st.tree.path)
        seen: Set[int] = set()
        stack: List[object] = [st.tree]
        while stack:
            node = stack.pop()
            if id(node) in seen:
                continue
            seen.add(id(node))
            if isinstance(node, mn.CallExpr) and isinstance(node.callee, mn.MemberExpr):
                recv = node.callee.expr
                t = types.get(recv)
                if t is not None:
                    t = mt.get_proper_type(t)
                    name = None
                    if isinstance(t, mt.Instance):
                        name = t.type.fullname
                    elif isinstance(t, mt.UnionType):
                        insts = [mt.get_proper_type(x) for x in t.items]
                        insts = [x for x in insts if isinstance(x, mt.Instance)]
                        if len(insts) == 1:
                            name = insts[0].type.fullname
                    if name:
                        out[(fn, recv.line, recv.column)] = name
            for attr in dir(type(node)):
                if attr.startswith("_") or attr in ("accept", "node", "info", "original_def", "impl", "var", "type",
                                                   "type_guard", "analyzed", "unanalyzed_type", "definition", "fullname"):
                    continue  # references into OTHER trees, not structural children
                try:
                    v = getattr(node, attr)
                except Exception:
                    continue
                if isinstance(v, mn.Node):
                    stack.append(v)
                elif isinstance(v, (list, tuple)):
                    for x in v:
                        if isinstance(x, mn.Node):
                            stack.append(x)
                        elif isinstance(x, (list, tuple)):
                            stack.extend(y for y in x if isinstance(y, mn.Node))
    return out


def cross_validate(ctx: Ctx) -> Dict[str, object]:
    """Compare the engine's receiver types of resolved method calls with mypy's."""
    mt = mypy_receiver_types(ctx.repo)
    if mt is None:
        return {"available": False}
    agree = disagree = untyped = 0
    bad: List[str] = []
    for f in ctx.prog.functions.values():
        for n in ctx.cfg(f).calls():
            c = n.callee
            if c is None or c.kind != "func" or c.recv_type is None or not isinstance(n.ast, ast.Call):
                continue
            if not isinstance(n.ast.func, ast.Attribute):
                continue
            recv = n.ast.func.value
            key = (os.path.basename(f.module.path), recv.lineno, recv.col_offset)
            m = mt.get(key)
            if m is None:
                untyped += 1
                continue
            ours = c.recv_type.name if c.recv_type.name != "type" else (c.recv_type.args[0].name if c.recv_type.args else "type")
            if m == ours or m.split(".")[-1] == ours.split(".")[-1]:
                agree += 1
            else:
                # ours may be the declared base while mypy narrowed to a subclass (isinstance) or vice versa
                oc, mc = ctx.prog.lookup_class(ours), ctx.prog.lookup_class(m)
                if oc and mc and (mc in ctx.prog.mro(oc) or oc in ctx.prog.mro(mc)):
                    agree += 1
                else:
                    disagree += 1
                    bad.append(f"{f.file}:{n.lineno} `{n.text[:50]}` engine={ours} mypy={m}")
    return {"available": True, "agree": agree, "disagree": disagree, "not_typed_by_mypy": untyped, "disagreements": bad[:10]}


def reformat_silent(pid: str, mod, repo: str) -> Tuple[bool, str]:
    """ast.unparse every module into a scratch copy: the verdict must not change (no rule may depend on layout)."""
    tmp = tempfile.mkdtemp(prefix="sa_reformat_")
    try:
        dst = os.path.join(tmp, "src", PKG)
        os.makedirs(dst)
        for fn in os.listdir(os.path.join(repo, "src", PKG)):
            if fn.endswith(".py"):
                with open(os.path.join(repo, "src", PKG, fn)) as fh:
                    src = fh.read()
                with open(os.path.join(dst, fn), "w") as fh:
                    fh.write(ast.unparse(ast.parse(src)) + "\n")
        code, viol, _ = run_property(pid, "thorough", tmp, mod.check, mod.EXPLANATION, mod.NOT_DECIDED,
                                     write_evidence=False, quiet=True)
        return code == 0, "; ".join(f"{v.rule}:{v.key[:80]}" for v in viol[:3])
    finally:
        shutil.rmtree(tmp, ignore_errors=True)


def rename_silent(pid: str, mod, repo: str) -> Tuple[bool, str]:
    """Rename every local variable of the package on a scratch copy: the verdict must not change."""
    from .benign_gen import rename_locals_copy
    tmp, total = rename_locals_copy(repo)
    try:
        code, viol, _ = run_property(pid, "thorough", tmp, mod.check, mod.EXPLANATION, mod.NOT_DECIDED, write_evidence=False, quiet=True)
        return code == 0, f"{total} locals renamed; " + "; ".join(f"{v.rule}:{v.key[:80]}" for v in viol[:3])
    except AnalysisError as e:
        return False, f"analysis error: {e}"
    finally:
        shutil.rmtree(tmp, ignore_errors=True)


def annotate_silent(pid: str, mod, repo: str) -> Tuple[bool, str]:
    """Give local assignments a vacuous type annotation (`x: object = v`) on a scratch copy: the verdict must not change."""
    from .benign_gen import annotate_locals_copy
    tmp, total = annotate_locals_copy(repo)
    try:
        code, viol, _ = run_property(pid, "thorough", tmp, mod.check, mod.EXPLANATION, mod.NOT_DECIDED, write_evidence=False, quiet=True)
        return code == 0, f"{total} assignments annotated; " + "; ".join(f"{v.rule}:{v.key[:80]}" for v in viol[:3])
    except AnalysisError as e:
        return False, f"analysis error: {e}"
    finally:
        shutil.rmtree(tmp, ignore_errors=True)


def run_thorough(pid: str, mod, repo: str, write_evidence: bool = True) -> int:
    t0 = time.time()
    code, viol, ctx = run_property(pid, "thorough", repo, mod.check, mod.EXPLANATION, mod.NOT_DECIDED,
                                   getattr(mod, "ASSUMPTIONS", ()), write_evidence=False)
    obs = [o for o in ctx.obs]
    # (a) mypy agreement
    xv = cross_validate(ctx)
    print(f"[{pid}] mypy cross-validation of resolved method-call receivers: {xv}")
    if xv.get("available") and xv.get("disagree", 0):
        print(f"ANALYSIS-ERROR property={pid}: call resolution disagrees with mypy on {xv['disagree']} call site(s): {xv['disagreements']}")
        return 2
    # (b) self-test of this property's rules - only meaningful on the unchanged tree shape; a failing self-test
    #     means the CHECKER is broken (exit 2), never a verdict about /repo
    from .selftest import selftest
    st_ok, st_res = selftest(repo, pid)
    caught = sum(1 for r in st_res if r["kind"] == "mutant" and r["ok"])
    n_mut = sum(1 for r in st_res if r["kind"] == "mutant")
    stale = sum(1 for r in st_res if r["status"] == "stale")
    ben_ok = sum(1 for r in st_res if r["kind"] == "benign" and r["ok"])
    n_ben = sum(1 for r in st_res if r["kind"] == "benign")
    print(f"[{pid}] checker self-test: {caught}/{n_mut} mutants caught ({stale} stale), {ben_ok}/{n_ben} benign variants silent")
    # (c) reformat
    rf_ok, rf_detail = reformat_silent(pid, mod, repo) if code == 0 else (True, "skipped (violation present)")
    print(f"[{pid}] whole-package ast.unparse reformat leaves the verdict unchanged: {rf_ok} {rf_detail}")
    rn_ok, rn_detail = rename_silent(pid, mod, repo) if code == 0 else (True, "skipped (violation present)")
    print(f"[{pid}] renaming every local variable leaves the verdict unchanged: {rn_ok} {rn_detail}")
    an_ok, an_detail = annotate_silent(pid, mod, repo) if code == 0 else (True, "skipped (violation present)")
    print(f"[{pid}] annotating local assignments leaves the verdict unchanged: {an_ok} {an_detail}")
    wall = time.time() - t0
    if write_evidence:
        failing = [o for o in obs if not o.ok]
        write_evidence_file(pid, "thorough", ctx, obs, viol, failing, wall, mod.EXPLANATION, mod.NOT_DECIDED,
                            getattr(mod, "ASSUMPTIONS", ()),
                            extra_cov={"mypy_cross_validation": xv,
                                       "checker_selftest": {"mutants": n_mut, "caught": caught, "stale": stale,
                                                            "benign": n_ben, "benign_silent": ben_ok,
                                                            "missed": [r["id"] for r in st_res if r["kind"] == "mutant" and not r["ok"] and r["status"] != "stale"]},
                                       "reformat_invariant": rf_ok, "rename_locals_invariant": rn_ok,
                                       "annotate_locals_invariant": an_ok})
    if code == 0 and viol == [] and (not st_ok) and all(o.ok or True for o in obs):
        missed = [r["id"] for r in st_res if not r["ok"] and r["status"] != "stale"]
        # a self-test miss is a checker defect: report, but only fail the run when the tree itself is clean (otherwise the
        # tree legitimately differs from the corpus' expectations)
        print(f"ANALYSIS-ERROR property={pid}: checker self-test failed for {missed}")
        return 2
    if not rf_ok:
        print(f"ANALYSIS-ERROR property={pid}: verdict changes under reformatting ({rf_detail})")
        return 2
    if not rn_ok:
        print(f"ANALYSIS-ERROR property={pid}: verdict changes when local variables are renamed ({rn_detail})")
        return 2
    if not an_ok:
        print(f"ANALYSIS-ERROR property={pid}: verdict changes when local assignments are annotated ({an_detail})")
        return 2
    return code
