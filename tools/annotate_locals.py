#!/usr/bin/env python3
"""Benign-variant test: give local assignments a (vacuous) type annotation and run all checks: nothing may fire."""
import shutil, subprocess, sys
sys.path.insert(0, "/verif")
from sa.benign_gen import annotate_locals_copy
tmp, total = annotate_locals_copy(sys.argv[1] if len(sys.argv) > 1 and not sys.argv[1].startswith("-") else "/repo")
print(f"annotated {total} local assignments -> {tmp}")
p = subprocess.run(["/venv/bin/python", "/verif/sa/check.py", "--all", "--no-evidence", "--repo", tmp], capture_output=True, text=True)
bad = [l for l in p.stdout.splitlines() if "FAILS" in l or "ANALYSIS-ERROR" in l or "VIOLATION" in l]
for l in bad:
    print(l[:400])
if "--keep" not in sys.argv:
    shutil.rmtree(tmp, ignore_errors=True)
print("violations/errors:", len(bad))
sys.exit(1 if bad else 0)
