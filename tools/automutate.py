#!/usr/bin/env python3
"""Systematic AST mutation of the anchored functions: which mutants does NO check report?

For every mutant (one small AST edit in one function of src/datashard) a scratch copy of the package is written, all 20
quick checks run on it (in-process, shared engine), and the set of firing properties is recorded.  Survivors (no check
fires) are listed for triage: each is either behaviour-neutral / outside every property, or a gap in the rules.
Optionally (--suite) survivors are also run against the repository's test-suite; only those that ALSO pass the suite are
interesting ("compiles, passes the tests, breaks a property?").

usage: automutate.py [--files a.py,b.py] [--funcs qualname-substring,...] [--jobs 16] [--suite] [--out file.json]
"""
import argparse, ast, copy, json, os, shutil, subprocess, sys, tempfile
from concurrent.futures import ProcessPoolExecutor

sys.path.insert(0, "/verif")
REPO = "/repo"
PKG = os.path.join(REPO, "src", "datashard")


def functions(tree):
    out = []
    def walk(node, prefix):
        for n in getattr(node, "body", []):
            if isinstance(n, (ast.FunctionDef, ast.AsyncFunctionDef)):
                out.append((prefix + n.name, n))
                walk(n, prefix + n.name + ".")
            elif isinstance(n, ast.ClassDef):
                walk(n, prefix + n.name + ".")
    walk(tree, "")
    return out


CMP_SWAP = {ast.Lt: ast.LtE, ast.LtE: ast.Lt, ast.Gt: ast.GtE, ast.GtE: ast.Gt, ast.Eq: ast.NotEq, ast.NotEq: ast.Eq,
            ast.In: ast.NotIn, ast.NotIn: ast.In, ast.Is: ast.IsNot, ast.IsNot: ast.Is}


def mutants_of(fn_node):
    """Yield (description, path-to-node, mutator) - path identifies the node inside a deepcopy."""
    nodes = list(ast.walk(fn_node))
    for idx, n in enumerate(nodes):
        if isinstance(n, ast.Compare) and len(n.ops) == 1 and type(n.ops[0]) in CMP_SWAP:
            yield (f"L{n.lineno} cmp {type(n.ops[0]).__name__}->{CMP_SWAP[type(n.ops[0])].__name__}: {ast.unparse(n)[:60]}", idx, "cmp")
        if isinstance(n, ast.BoolOp):
            yield (f"L{n.lineno} boolop swap: {ast.unparse(n)[:60]}", idx, "boolop")
        if isinstance(n, ast.If):
            yield (f"L{n.lineno} negate if: {ast.unparse(n.test)[:60]}", idx, "negif")
            yield (f"L{n.lineno} if-true: {ast.unparse(n.test)[:60]}", idx, "iftrue")
            yield (f"L{n.lineno} if-false: {ast.unparse(n.test)[:60]}", idx, "iffalse")
        if isinstance(n, ast.Raise):
            yield (f"L{n.lineno} raise->pass: {ast.unparse(n)[:60]}", idx, "raisepass")
        if isinstance(n, ast.Expr) and isinstance(n.value, ast.Call):
            yield (f"L{n.lineno} delete call stmt: {ast.unparse(n)[:60]}", idx, "delstmt")
        if isinstance(n, ast.ExceptHandler):
            yield (f"L{n.lineno} handler body->pass: except {ast.unparse(n.type) if n.type else ''}", idx, "handlerpass")
            if n.type is not None and ast.unparse(n.type) != "Exception":
                yield (f"L{n.lineno} handler class->Exception: except {ast.unparse(n.type)}", idx, "handlerbroad")
        if isinstance(n, ast.Constant) and isinstance(n.value, bool):
            yield (f"L{n.lineno} bool flip {n.value}", idx, "boolflip")
        if isinstance(n, ast.UnaryOp) and isinstance(n.op, ast.Not):
            yield (f"L{n.lineno} drop not: {ast.unparse(n)[:60]}", idx, "dropnot")
        if isinstance(n, ast.Return) and n.value is not None and not isinstance(n.value, ast.Constant):
            yield (f"L{n.lineno} return->None: {ast.unparse(n)[:60]}", idx, "retnone")
        if isinstance(n, ast.Assign) and isinstance(n.value, ast.Call) and len(n.targets) == 1 and isinstance(n.targets[0], ast.Attribute):
            yield (f"L{n.lineno} delete attr assign: {ast.unparse(n)[:60]}", idx, "delstmt")
        if isinstance(n, (ast.Continue, ast.Break)):
            yield (f"L{n.lineno} {type(n).__name__}->pass", idx, "ctlpass")


def apply(fn_node, idx, kind):
    nodes = list(ast.walk(fn_node))
    n = nodes[idx]
    if kind == "cmp":
        n.ops = [CMP_SWAP[type(n.ops[0])]()]
    elif kind == "boolop":
        n.op = ast.Or() if isinstance(n.op, ast.And) else ast.And()
    elif kind == "negif":
        n.test = ast.UnaryOp(op=ast.Not(), operand=n.test)
    elif kind == "iftrue":
        n.test = ast.Constant(value=True)
    elif kind == "iffalse":
        n.test = ast.Constant(value=False)
    elif kind in ("raisepass", "delstmt", "ctlpass"):
        repl = ast.Pass()
        for p in ast.walk(fn_node):
            for fld in ("body", "orelse", "finalbody"):
                lst = getattr(p, fld, None)
                if isinstance(lst, list) and n in lst:
                    lst[lst.index(n)] = ast.copy_location(repl, n)
                    return
            if isinstance(p, ast.Try):
                for h in p.handlers:
                    if n in h.body:
                        h.body[h.body.index(n)] = ast.copy_location(repl, n)
                        return
    elif kind == "handlerpass":
        n.body = [ast.Pass()]
    elif kind == "handlerbroad":
        n.type = ast.Name(id="Exception", ctx=ast.Load())
    elif kind == "boolflip":
        n.value = not n.value
    elif kind == "dropnot":
        for p in ast.walk(fn_node):
            for fld, val in ast.iter_fields(p):
                if val is n:
                    setattr(p, fld, n.operand)
                    return
                if isinstance(val, list) and n in val:
                    val[val.index(n)] = n.operand
                    return
    elif kind == "retnone":
        n.value = ast.Constant(value=None)


def run_one(job):
    fn_file, qual, desc, idx, kind, with_suite = job
    from sa import rules as registry
    from sa.core import Ctx, run_property
    from sa.model import AnalysisError
    src = open(os.path.join(PKG, fn_file)).read()
    tree = ast.parse(src)
    target = dict(functions(tree)).get(qual)
    if target is None:
        return None
    try:
        apply(target, idx, kind)
        ast.fix_missing_locations(tree)
        out = ast.unparse(tree) + "\n"
        compile(out, fn_file, "exec")
    except Exception as e:
        return {"file": fn_file, "func": qual, "mutant": desc, "status": "invalid", "detail": str(e)[:80]}
    tmp = tempfile.mkdtemp(prefix="sa_am_")
    try:
        dst = os.path.join(tmp, "src", "datashard")
        shutil.copytree(PKG, dst, ignore=shutil.ignore_patterns("__pycache__"))
        open(os.path.join(dst, fn_file), "w").write(out)
        fired = {}
        try:
            ctx = Ctx(tmp)
        except Exception as e:
            return {"file": fn_file, "func": qual, "mutant": desc, "status": "engine-error", "detail": str(e)[:120]}
        for pid, mod in registry.available().items():
            try:
                code, viol, _ = run_property(pid, "quick", tmp, mod.check, mod.EXPLANATION, mod.NOT_DECIDED, ctx=ctx,
                                             write_evidence=False, quiet=True)
                if code == 1:
                    fired[pid] = sorted({v.rule for v in viol})
            except AnalysisError as e:
                fired[pid] = ["ANALYSIS-ERROR " + str(e)[:60]]
            except Exception as e:
                fired[pid] = ["ENGINE-CRASH " + repr(e)[:80]]
        res = {"file": fn_file, "func": qual, "mutant": desc, "status": "caught" if fired else "survived", "fired": fired}
        if not fired and with_suite:
            env = dict(os.environ, PYTHONPATH=os.path.join(tmp, "src"))
            p = subprocess.run(["/venv/bin/python", "-m", "pytest", "-q", "-p", "no:cacheprovider", "--timeout=300", "-x", "-q",
                                "--deselect", "tests/test_scan_features.py::TestToPandasWithFilter", "--deselect", "tests/test_scan_features.py::TestIterPandas",
                                "--deselect", "tests/test_scan_features.py::TestParallelToPandas", "--deselect", "tests/test_scan_features.py::TestEdgeCases::test_to_pandas_empty_table",
                                os.path.join(REPO, "tests")], cwd=REPO, env=env, capture_output=True, text=True)
            res["suite_pass"] = (p.returncode == 0)
        return res
    finally:
        shutil.rmtree(tmp, ignore_errors=True)


def main():
    ap = argparse.ArgumentParser()
    ap.add_argument("--files", default="")
    ap.add_argument("--funcs", default="")
    ap.add_argument("--jobs", type=int, default=16)
    ap.add_argument("--suite", action="store_true")
    ap.add_argument("--out", default="/tmp/automutate.json")
    a = ap.parse_args()
    files = [f for f in sorted(os.listdir(PKG)) if f.endswith(".py")]
    if a.files:
        files = [f for f in files if f in a.files.split(",")]
    subs = [s for s in a.funcs.split(",") if s]
    jobs = []
    for fn_file in files:
        tree = ast.parse(open(os.path.join(PKG, fn_file)).read())
        for qual, node in functions(tree):
            if subs and not any(s in qual for s in subs):
                continue
            for desc, idx, kind in mutants_of(node):
                # skip mutants inside nested defs twice: only report for the innermost function
                inner = [q for q, nd in functions(tree) if q.startswith(qual + ".") and any(x is list(ast.walk(node))[idx] for x in ast.walk(nd))]
                if inner:
                    continue
                jobs.append((fn_file, qual, desc, idx, kind, a.suite))
    print(f"{len(jobs)} mutants over {len(files)} files")
    results = []
    with ProcessPoolExecutor(max_workers=a.jobs) as ex:
        for r in ex.map(run_one, jobs, chunksize=4):
            if r:
                results.append(r)
    json.dump(results, open(a.out, "w"), indent=1)
    st = {}
    for r in results:
        st[r["status"]] = st.get(r["status"], 0) + 1
    print(st)
    for r in results:
        if r["status"] == "survived" and (not a.suite or r.get("suite_pass")):
            print(f"SURVIVOR {r['file']}::{r['func']}  {r['mutant']}")
        if r["status"] == "caught" and any(str(x).startswith("ENGINE-CRASH") for v in r["fired"].values() for x in v):
            print(f"ENGINE-CRASH {r['file']}::{r['func']} {r['mutant']} {r['fired']}")


if __name__ == "__main__":
    main()
