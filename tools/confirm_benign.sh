#!/bin/bash
# usage: confirm_benign.sh <round_dir> <Cxx> <k>  -> "<Cxx>-<k> <pytest tail>" (scratch copy of /repo HEAD + patch, full suite)
rd=$1; id=$2; k=$3
d=/tmp/bw_${id}_$k
rm -rf $d; mkdir -p $d
cd /repo && git archive HEAD | tar -x -C $d
cd $d && git init -q . >/dev/null 2>&1
if ! git apply $rd/${id}_out/patch$k.diff 2>/dev/null; then echo "$id-$k APPLY-FAIL"; rm -rf $d; exit; fi
r=$(PYTHONPATH=$d/src /venv/bin/python -m pytest -q -p no:cacheprovider --timeout=900 tests 2>&1 | tail -1)
echo "$id-$k $r"
rm -rf $d
