#!/bin/bash
id=$1; k=$2
out=${SEED_DIR:-/tmp/seed11}/${id}_out
d=/tmp/cp_${id}_$k
rm -rf $d; mkdir -p $d
cd /repo && git archive HEAD | tar -x -C $d
cd $d && git init -q . >/dev/null 2>&1 && git add -A >/dev/null 2>&1 && git -c user.email=a@b -c user.name=x commit -qm o >/dev/null 2>&1
cp $out/demo$k.py $d/_demo.py
export PYTHONPATH=$d/src
timeout 600 /venv/bin/python _demo.py > $d/_d0.log 2>&1; rc0=$?
if ! git apply $out/patch$k.diff 2>$d/_apply.err; then echo "{\"id\":\"$id-$k\",\"apply\":\"FAIL\"}"; rm -rf $d; exit; fi
suite=$(/venv/bin/python -m pytest -q -p no:cacheprovider --timeout=900 tests 2>&1 | tail -1)
timeout 600 /venv/bin/python _demo.py > $d/_d1.log 2>&1; rc1=$?
git checkout -q -- . ; git clean -fdq -e _demo.py -e '_d*.log' -e _apply.err >/dev/null 2>&1
if ! git apply $out/fixed$k.diff 2>$d/_apply2.err; then echo "{\"id\":\"$id-$k\",\"apply_fixed\":\"FAIL\"}"; rm -rf $d; exit; fi
suite2=$(/venv/bin/python -m pytest -q -p no:cacheprovider --timeout=900 tests 2>&1 | tail -1)
timeout 600 /venv/bin/python _demo.py > $d/_d2.log 2>&1; rc2=$?
tail1=$(tail -2 $d/_d1.log | tr '\n"\\' ' ~/' | cut -c1-300)
echo "{\"id\":\"$id-$k\",\"demo_without\":$rc0,\"demo_with\":$rc1,\"suite\":\"$suite\",\"demo_with_twin\":$rc2,\"suite_twin\":\"$suite2\",\"tail\":\"$tail1\"}"
rm -rf $d
