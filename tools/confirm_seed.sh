#!/bin/bash
# usage: confirm_seed.sh <round_dir> <Cxx> <k>   -> prints JSON line
rd=$1; id=$2; k=$3
out=$rd/${id}_out
d=/tmp/cw_${id}_$k
rm -rf $d; mkdir -p $d
cd /repo && git archive HEAD | tar -x -C $d
cd $d && git init -q . >/dev/null 2>&1
cp $out/demo$k.py $d/_demo.py
export PYTHONPATH=$d/src
timeout 600 /venv/bin/python _demo.py > $d/_d0.log 2>&1; rc0=$?
if ! git apply $out/patch$k.diff 2>$d/_apply.err; then echo "{\"id\":\"$id-$k\",\"apply\":\"FAIL\"}"; rm -rf $d; exit; fi
suite=$(/venv/bin/python -m pytest -q -p no:cacheprovider --timeout=900 tests 2>&1 | tail -1)
timeout 600 /venv/bin/python _demo.py > $d/_d1.log 2>&1; rc1=$?
tail1=$(tail -2 $d/_d1.log | tr '\n"' ' ~' | cut -c1-300)
echo "{\"id\":\"$id-$k\",\"demo_without\":$rc0,\"demo_with\":$rc1,\"suite\":\"$suite\",\"tail\":\"$tail1\"}"
rm -rf $d
