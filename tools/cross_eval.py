#!/usr/bin/env python3
"""Refactored AND broken must still fire: for every behaviour-preserving refactoring of /verif/benign (status silent) and every
corpus mutant whose exact-text edit still applies on the refactored tree AND touches a file the refactoring touches, apply both to
a scratch copy and run the mutant's property.  Prints the combinations that stay silent (a rule form the refactoring generalised
into something that no longer sees the break) or end in an analysis error.
usage: cross_eval.py [--jobs N] [--all-files] [Cxx ...]"""
import glob, json, os, re, shutil, subprocess, sys, tempfile
from concurrent.futures import ProcessPoolExecutor
sys.path.insert(0, "/verif")
from sa.corpus import MUTANTS  # noqa: E402


def one(args):
    pf, m = args
    from sa import rules as registry
    from sa.core import run_property
    from sa.model import AnalysisError
    tmp = tempfile.mkdtemp(prefix="sa_cross_")
    try:
        os.makedirs(os.path.join(tmp, "src"))
        shutil.copytree("/repo/src/datashard", os.path.join(tmp, "src", "datashard"), ignore=shutil.ignore_patterns("__pycache__"))
        pr = subprocess.run(["git", "apply", "--unsafe-paths", "--directory=" + tmp, pf], cwd=tmp, capture_output=True, text=True)
        if pr.returncode != 0:
            return None
        for fn, old, new in m["edits"]:
            p = os.path.join(tmp, "src", "datashard", fn)
            s = open(p).read()
            if s.count(old) < 1:
                return None  # the refactoring rewrote the text the mutant edits: combination not expressible
            s = s.replace(old, new, 1)
            try:
                compile(s, p, "exec")
            except SyntaxError:
                return None
            open(p, "w").write(s)
        pid = m["prop"]
        mod = registry.load(pid)
        try:
            code, viol, _ = run_property(pid, "quick", tmp, mod.check, mod.EXPLANATION, mod.NOT_DECIDED, write_evidence=False, quiet=True)
        except AnalysisError as e:
            return (pf, m["id"], pid, "analysis-error", str(e)[:100])
        except Exception as e:
            return (pf, m["id"], pid, "engine-crash", repr(e)[:100])
        return (pf, m["id"], pid, "fired" if code == 1 else "SILENT", ",".join(sorted({v.rule for v in viol})))
    finally:
        shutil.rmtree(tmp, ignore_errors=True)


if __name__ == "__main__":
    argv = sys.argv[1:]
    jobs = 8
    if "--jobs" in argv:
        i = argv.index("--jobs"); jobs = int(argv[i + 1]); del argv[i:i + 2]
    all_files = "--all-files" in argv
    props = [a for a in argv if re.fullmatch(r"C\d\d", a)]
    work = []
    for pf in sorted(glob.glob("/verif/benign/*/patch.diff")):
        try:
            if json.load(open(os.path.join(os.path.dirname(pf), "meta.json"))).get("status") == "open-false-alarm":
                continue
        except Exception:
            pass
        touched = set(re.findall(r"^\+\+\+ b/src/datashard/(\S+)", open(pf).read(), re.M))
        for m in MUTANTS:
            if props and m["prop"] not in props:
                continue
            if all_files or touched & {e[0] for e in m["edits"]}:
                work.append((pf, m))
    print(f"{len(work)} combinations", flush=True)
    n = {"fired": 0, "SILENT": 0, "analysis-error": 0, "engine-crash": 0, "n/a": 0}
    with ProcessPoolExecutor(max_workers=jobs) as ex:
        for r in ex.map(one, work, chunksize=4):
            if r is None:
                n["n/a"] += 1
                continue
            n[r[3]] += 1
            if r[3] != "fired":
                print(os.path.basename(os.path.dirname(r[0])), r[1], r[2], r[3], r[4], flush=True)
    print(n)
