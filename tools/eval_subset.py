#!/usr/bin/env python3
"""Run all 20 quick checks against each given patch (applied to a scratch copy of /repo/src/datashard), in parallel.
usage: eval_patches.py <patch.diff>...   prints `<patch> {property: [rules]}` per patch (empty dict = silent)."""
import os, shutil, subprocess, sys, tempfile
from concurrent.futures import ProcessPoolExecutor
sys.path.insert(0, "/verif")


def one(patch):
    from sa import rules as registry
    from sa.core import Ctx, run_property
    from sa.model import AnalysisError
    tmp = tempfile.mkdtemp(prefix="sa_evalp_")
    try:
        os.makedirs(os.path.join(tmp, "src"))
        shutil.copytree("/repo/src/datashard", os.path.join(tmp, "src", "datashard"), ignore=shutil.ignore_patterns("__pycache__"))
        pr = subprocess.run(["git", "apply", "--unsafe-paths", "--directory=" + tmp, patch], cwd=tmp, capture_output=True, text=True)
        if pr.returncode != 0:
            pr = subprocess.run(["patch", "-p1", "-s", "-i", patch], cwd=tmp, capture_output=True, text=True)
        if pr.returncode != 0:
            return patch, {"APPLY": ["failed"]}
        fired = {}
        try:
            ctx = Ctx(tmp)
        except Exception as e:
            return patch, {"ENGINE": [repr(e)[:100]]}
        for pid, mod in [(p_, m_) for p_, m_ in registry.available().items() if not os.environ.get("ONLY_PROPS") or p_ in os.environ["ONLY_PROPS"].split(",")]:
            try:
                code, viol, _ = run_property(pid, "quick", tmp, mod.check, mod.EXPLANATION, mod.NOT_DECIDED, ctx=ctx,
                                             write_evidence=False, quiet=True)
                if code == 1:
                    fired[pid] = sorted({v.rule for v in viol})
            except AnalysisError as e:
                fired[pid] = ["ANALYSIS-ERROR " + str(e)[:70]]
            except Exception as e:
                fired[pid] = ["ENGINE-CRASH " + repr(e)[:70]]
        return patch, fired
    finally:
        shutil.rmtree(tmp, ignore_errors=True)


if __name__ == "__main__":
    with ProcessPoolExecutor(max_workers=16) as ex:
        for patch, fired in ex.map(one, sys.argv[1:]):
            print(patch, fired)
