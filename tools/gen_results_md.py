#!/usr/bin/env python3
"""Regenerate the generated tables of DESIGN.md section 9 (between the BEGIN/END markers)."""
import glob, json, re, subprocess
kf = json.load(open('/verif/known_findings.json'))
rows = []
for l in kf["fixed"]:
    m = re.match(r"fixed: property=(C\d+) (\w+) (.*)", l)
    rows.append(f"| `{m.group(2)}` | {m.group(1)} | {m.group(3)} |")
fix_tbl = "| commit | property | what failed (rule) |\n|---|---|---|\n" + "\n".join(rows)
seeds = []
for f in sorted(glob.glob('/verif/seeded/*/meta.json')):
    m = json.load(open(f))
    first = m.get("first_run_result") or {}
    now = m.get("checks_that_fire") or {}
    def fmt(d):
        if not d:
            return "**missed**"
        return ", ".join(f"{k}:{'/'.join(x.split('.')[-1] if x.startswith(k) else x for x in v)}" for k, v in sorted(d.items()))
    seeds.append(f"| {m['id']} | {(m.get('summary') or '')[:150].replace('|','/').replace(chr(10),' ')} | {fmt(first)} | {fmt(now)} | {'yes' if m.get('caught_by_target_property') else 'NO'} |")
seed_tbl = "| seed | change (author's summary, truncated) | fired on first run | fires now | target property's own check fires |\n|---|---|---|---|---|\n" + "\n".join(seeds)
n = len(seeds)
n_first_any = sum(1 for f in glob.glob('/verif/seeded/*/meta.json') if (json.load(open(f)).get("first_run_result")))
n_first_target = sum(1 for f in glob.glob('/verif/seeded/*/meta.json') for m in [json.load(open(f))] if m["property"] in (m.get("first_run_result") or {}))
n_now_target = sum(1 for f in glob.glob('/verif/seeded/*/meta.json') for m in [json.load(open(f))] if m.get("caught_by_target_property"))
stats = (f"{n} confirmed seeded changes; on the first run (before any strengthening) {n_first_any} were reported by some check and "
         f"{n_first_target} by the target property's own check; with the current rules {n_now_target}/{n} are reported by the target property's check.")
s = open('/verif/DESIGN.md').read()
def put(tag, body):
    global s
    a, b = f"<!-- BEGIN {tag} -->", f"<!-- END {tag} -->"
    i, j = s.index(a) + len(a), s.index(b)
    s = s[:i] + "\n" + body + "\n" + s[j:]
put("FIXES", fix_tbl)
put("SEEDS", stats + "\n\n" + seed_tbl)
open('/verif/DESIGN.md', 'w').write(s)
print(stats)
