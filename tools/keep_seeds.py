#!/usr/bin/env python3
"""Store confirmed seeded changes of one round under /verif/seeded/<Cxx>-r<round>-<k>/.
usage: keep_seeds.py <round_dir> <round_no> <confirm.jsonl> <first_run.txt>
confirm.jsonl: lines from my scratch-copy confirmation (demo rc without/with patch, suite tail);
first_run.txt: lines "<Cxx>-r<n>-<k> {fired dict}" from tools/seed_checks.py BEFORE any rule was changed for this round."""
import ast, json, os, shutil, sys
rd, rno, conf, first = sys.argv[1], int(sys.argv[2]), sys.argv[3], sys.argv[4]
confirm = {}
for l in open(conf):
    try:
        d = json.loads(l)
        confirm[d["id"]] = d
    except Exception:
        pass
fr = {}
for l in open(first):
    if " " in l:
        sid, rest = l.split(" ", 1)
        try:
            fr[sid] = ast.literal_eval(rest.strip())
        except Exception:
            fr[sid] = {"unparsed": rest.strip()[:200]}
kept = 0
for i in range(1, 21):
    pid = f"C{i:02d}"
    for k in (1, 2, 3):
        out = os.path.join(rd, f"{pid}_out")
        c = confirm.get(f"{pid}-{k}")
        if not c or c.get("demo_without") != 0 or not c.get("demo_with") or "7 failed, 143 passed" not in c.get("suite", ""):
            print("NOT CONFIRMED", pid, k, c)
            continue
        sid = f"{pid}-r{rno}-{k}"
        dst = f"/verif/seeded/{sid}"
        os.makedirs(dst, exist_ok=True)
        shutil.copy(os.path.join(out, f"patch{k}.diff"), os.path.join(dst, "patch.diff"))
        shutil.copy(os.path.join(out, f"demo{k}.py"), os.path.join(dst, "demo.py"))
        am = json.load(open(os.path.join(out, f"meta{k}.json")))
        meta = {"id": sid, "property": pid, "round": rno, "kind": am.get("kind"), "summary": am.get("summary"),
                "needs_to_manifest": am.get("needs_to_manifest"),
                "author": f"independent sub-agent given only the property text and a scratch worktree (round {rno})",
                "confirmed_by_me": {"scratch_copy": "git archive of /repo HEAD under /tmp, removed afterwards",
                                    "suite_with_patch": "143 passed, 7 failed (the 7 pandas tests)",
                                    "demo_without_patch_exit": c["demo_without"], "demo_with_patch_exit": c["demo_with"],
                                    "demo_tail": c.get("tail", "")[:400],
                                    "commands": ["git apply patch.diff",
                                                 "PYTHONPATH=<copy>/src /venv/bin/python -m pytest -q -p no:cacheprovider --timeout=900 tests",
                                                 "PYTHONPATH=<copy>/src /venv/bin/python demo.py (before and after the patch)"]},
                "first_run_result": fr.get(sid, {})}
        json.dump(meta, open(os.path.join(dst, "meta.json"), "w"), indent=1)
        kept += 1
print("kept", kept)
