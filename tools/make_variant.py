#!/usr/bin/env python3
"""Build /verif/variants/<name>: a benign refactoring of /verif/benign plus ONE textual mutation (must-fire self-test item).
usage: make_variant.py <benign-id> <name> <Cxx> <relative file> <old> <new> <summary>"""
import json, os, shutil, subprocess, sys, tempfile
bid, name, prop, rel, old, new, summary = sys.argv[1:8]
tmp = tempfile.mkdtemp(prefix="sa_variant_")
try:
    subprocess.run(f"cd /repo && git archive HEAD src/datashard | tar -x -C {tmp}", shell=True, check=True)
    run = lambda *a: subprocess.run(a, cwd=tmp, check=True, capture_output=True, text=True)
    run("git", "init", "-q", ".")
    run("git", "add", "-A")
    run("git", "-c", "user.email=a@b", "-c", "user.name=x", "commit", "-qm", "orig")
    run("git", "apply", f"/verif/benign/{bid}/patch.diff")
    p = os.path.join(tmp, rel)
    s = open(p).read()
    if s.count(old) != 1:
        sys.exit(f"old text occurs {s.count(old)} times")
    open(p, "w").write(s.replace(old, new))
    compile(open(p).read(), p, "exec")
    d = f"/verif/variants/{name}"
    os.makedirs(d, exist_ok=True)
    open(os.path.join(d, "patch.diff"), "w").write(run("git", "diff").stdout)
    json.dump({"id": name, "property": prop, "base": f"benign/{bid}", "summary": summary,
               "author": "me: one mutation on top of an independently written behaviour-preserving refactoring; no run-time "
                         "demonstration (self-test material, not a seeded change)"}, open(os.path.join(d, "meta.json"), "w"), indent=1)
    print("wrote", d)
finally:
    shutil.rmtree(tmp, ignore_errors=True)
