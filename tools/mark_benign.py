#!/usr/bin/env python3
"""Evaluate every behaviour-preserving patch of /verif/benign against all 20 quick checks and record in its meta.json whether
the rules stay silent (`status: silent`) or still (wrongly) report it (`status: open-false-alarm`, with what fires)."""
import glob, json, os, sys
sys.path.insert(0, "/verif/tools")
from concurrent.futures import ProcessPoolExecutor
from eval_patches import one
patches = sorted(glob.glob("/verif/benign/*/patch.diff"))
n_open = 0
with ProcessPoolExecutor(max_workers=16) as ex:
    for patch, fired in ex.map(one, patches):
        mf = os.path.join(os.path.dirname(patch), "meta.json")
        m = json.load(open(mf)) if os.path.exists(mf) else {}
        m["status"] = "open-false-alarm" if fired else "silent"
        m["alarms_today"] = fired
        json.dump(m, open(mf, "w"), indent=1)
        if fired:
            n_open += 1
            print("OPEN", os.path.basename(os.path.dirname(patch)), fired)
print(f"{len(patches)} patches, {n_open} open")
