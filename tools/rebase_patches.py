#!/usr/bin/env python3
"""After a `fix:` commit in /repo some stored patches (seeded / benign / variants) no longer apply to HEAD.  Rebase each stale
patch: apply it on the commit it was written for (HEAD~n), commit, cherry-pick the fix commits on top, and store the diff
against HEAD.  A patch whose rebase conflicts is reported and left untouched.
usage: rebase_patches.py <old-commit>"""
import glob, os, shutil, subprocess, sys, tempfile
old = sys.argv[1]
tmp = tempfile.mkdtemp(prefix="sa_rebase_")
def run(*a, check=True):
    return subprocess.run(a, cwd=tmp, capture_output=True, text=True, check=check)
try:
    subprocess.run(["git", "clone", "-q", "/repo", tmp], check=True)
    run("git", "config", "user.email", "a@b"); run("git", "config", "user.name", "x")
    head = run("git", "rev-parse", "HEAD").stdout.strip()
    fixes = run("git", "rev-list", "--reverse", f"{old}..{head}").stdout.split()
    for p in sorted(glob.glob("/verif/seeded/*/patch.diff") + glob.glob("/verif/benign/*/patch.diff") + glob.glob("/verif/benign_open/*/patch.diff") + glob.glob("/verif/variants/*/patch.diff")):
        run("git", "checkout", "-q", "-f", head); run("git", "clean", "-fdq")
        if run("git", "apply", "--check", p, check=False).returncode == 0:
            continue
        run("git", "checkout", "-q", "-f", old)
        if run("git", "apply", p, check=False).returncode != 0:
            print("NOT-APPLICABLE-ON-OLD", p); continue
        run("git", "add", "-A"); run("git", "commit", "-qm", "patch")
        ok = True
        for c in fixes:
            if run("git", "cherry-pick", c, check=False).returncode != 0:
                run("git", "cherry-pick", "--abort", check=False); ok = False; break
        if not ok:
            print("CONFLICT", p); continue
        d = run("git", "diff", head, "HEAD").stdout
        open(p, "w").write(d)
        print("rebased", p)
finally:
    shutil.rmtree(tmp, ignore_errors=True)
