#!/bin/bash
# Re-run all 40 registered commands (quick + thorough per property) on /repo's working tree and rewrite /verif/evidence.
# Logs go to a scratch directory that is removed afterwards; prints one line per command and "ALL rc=<0|1>".
cd /verif
logs=$(mktemp -d /tmp/sa_evlogs_XXXX)
rc_all=0
for i in $(seq -w 1 20); do
  for tier in quick thorough; do
    s=$(date +%s)
    /venv/bin/python /verif/sa/check.py --property C$i --tier $tier > $logs/C${i}_$tier.log 2>&1; rc=$?
    e=$(date +%s)
    echo "C$i $tier rc=$rc $((e-s))s $(grep -c VIOLATION $logs/C${i}_$tier.log) viol"
    [ $rc -ne 0 ] && rc_all=1
  done
done
rm -rf $logs
echo "ALL rc=$rc_all"
