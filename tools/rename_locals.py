#!/usr/bin/env python3
"""Benign-variant generator: rename every local variable (not parameters, not attributes, not globals) of every function
in src/datashard to <name>_rn, write the package to a scratch dir and run all checks: no VIOLATION may appear."""
import ast, builtins, os, shutil, subprocess, sys, tempfile

class Renamer(ast.NodeTransformer):
    def __init__(self, names): self.names = names
    def visit_Name(self, n):
        if n.id in self.names: n.id = n.id + "_rn"
        return n
    def visit_ExceptHandler(self, n):
        if n.name in self.names: n.name = n.name + "_rn"
        self.generic_visit(n); return n
    def visit_FunctionDef(self, n):  # nested function: handled separately, but free variables must follow
        self.generic_visit(n); return n

def locals_of(fn):
    params = {a.arg for a in fn.args.posonlyargs + fn.args.args + fn.args.kwonlyargs}
    if fn.args.vararg: params.add(fn.args.vararg.arg)
    if fn.args.kwarg: params.add(fn.args.kwarg.arg)
    stores, globs, imported, nested = set(), set(), set(), set()
    for n in ast.walk(fn):
        if isinstance(n, ast.Name) and isinstance(n.ctx, ast.Store): stores.add(n.id)
        elif isinstance(n, (ast.Global, ast.Nonlocal)): globs |= set(n.names)
        elif isinstance(n, (ast.Import, ast.ImportFrom)):
            for a in n.names: imported.add((a.asname or a.name).split(".")[0])
        elif isinstance(n, ast.ExceptHandler) and n.name: stores.add(n.name)
        elif isinstance(n, (ast.FunctionDef, ast.AsyncFunctionDef)) and n is not fn: nested.add(n.name)
    # keyword-argument names used at calls of nested functions are untouched (they are params of the nested def)
    inner_params = set()
    for n in ast.walk(fn):
        if isinstance(n, (ast.FunctionDef, ast.Lambda)) and n is not fn:
            inner_params |= {a.arg for a in n.args.args + n.args.kwonlyargs}
    return (stores - params - globs - imported - nested - inner_params - set(dir(builtins)))

def main():
    src = "/repo/src/datashard"
    tmp = tempfile.mkdtemp(prefix="sa_rename_")
    dst = os.path.join(tmp, "src", "datashard"); os.makedirs(dst)
    total = 0
    for fn in sorted(os.listdir(src)):
        if not fn.endswith(".py"): continue
        tree = ast.parse(open(os.path.join(src, fn)).read())
        # top-level functions and methods only (nested functions share the parent's renaming through free variables)
        tops = [n for n in tree.body if isinstance(n, (ast.FunctionDef, ast.AsyncFunctionDef))]
        for c in [n for n in tree.body if isinstance(n, ast.ClassDef)]:
            tops += [n for n in c.body if isinstance(n, (ast.FunctionDef, ast.AsyncFunctionDef))]
        for f in tops:
            names = locals_of(f)
            total += len(names)
            Renamer(names).visit(f)
        out = ast.unparse(tree) + "\n"
        compile(out, fn, "exec")
        open(os.path.join(dst, fn), "w").write(out)
    print(f"renamed {total} locals -> {tmp}")
    p = subprocess.run(["/venv/bin/python", "/verif/sa/check.py", "--all", "--no-evidence", "--repo", tmp], capture_output=True, text=True)
    bad = [l for l in p.stdout.splitlines() if "FAILS" in l or "ANALYSIS-ERROR" in l or "VIOLATION" in l]
    for l in bad: print(l[:400])
    if "--keep" not in sys.argv: shutil.rmtree(tmp, ignore_errors=True)
    print("violations/errors:", len(bad))
main()
