#!/usr/bin/env python3
"""Markdown table of seed round 11 from the stored metas (seeded/Cxx-r11-k, benign[_open]/Cxx-r10-k)."""
import glob, json, os
rows = []
tot = {"seeds": 0, "caught": 0, "missed": 0, "twins": 0, "silent": 0, "alarm": 0, "pairs_ok": 0, "first_caught": 0, "first_silent": 0, "first_pairs": 0}
for mf in sorted(glob.glob("/verif/seeded/C??-r11-?/meta.json")):
    m = json.load(open(mf))
    pid, k = m["property"], m["id"].rsplit("-", 1)[1]
    tw = None
    for d in ("benign", "benign_open"):
        p = f"/verif/{d}/{pid}-r10-{k}/meta.json"
        if os.path.exists(p):
            tw = json.load(open(p))
    caught = not m.get("open")
    f_caught = pid in (m.get("first_run_result") or {})
    tot["seeds"] += 1
    tot["caught" if caught else "missed"] += 1
    tot["first_caught"] += f_caught
    t_txt = "-"
    if tw is not None:
        tot["twins"] += 1
        silent = tw.get("status") == "silent"
        tot["silent" if silent else "alarm"] += 1
        f_silent = not (tw.get("first_run_result") or {})
        tot["first_silent"] += f_silent
        tot["pairs_ok"] += caught and silent
        tot["first_pairs"] += f_caught and f_silent
        t_txt = "silent" if silent else "ALARMS: " + ", ".join(sorted(r for v in tw.get("alarms_today", {}).values() for r in v if isinstance(r, str))[:4])
    rep = ", ".join(sorted(r for r in (m.get("reported_today") or {}).get(pid, []))[:3])
    slip = (m.get("slip") or m.get("summary") or "").replace("|", "/").replace("\n", " ")[:150]
    rows.append(f"| {pid}-{k} | {m.get('kind') or '?'} | {slip} | {'**' + rep + '**' if caught else 'MISSED' + (' (others: ' + ', '.join(sorted(m.get('reported_today') or {})) + ')' if m.get('reported_today') else '')} | {t_txt} |")
print("| pair | kind | slip | seed today | twin today |")
print("|---|---|---|---|---|")
print("\n".join(rows))
print()
print(tot)
