#!/usr/bin/env python3
"""Apply a patch to /repo, run all quick checks, revert; print which properties fire. usage: seed_checks.py <patch> [target]"""
import re, subprocess, sys
patch = sys.argv[1]
def run(cmd):
    p = subprocess.run(cmd, capture_output=True, text=True)
    return p.returncode, p.stdout + p.stderr
rc, o = run(["git", "-C", "/repo", "apply", patch])
if rc != 0:
    print("APPLY-FAILED", o[-200:]); sys.exit(3)
fired = {}
try:
    _rc, out = run(["/venv/bin/python", "/verif/sa/check.py", "--all", "--no-evidence"])
    if "Traceback" in out or _rc not in (0, 1, 2):
        fired["ENGINE"] = {"CRASH: " + out.strip().splitlines()[-1][:100]}
    for line in out.splitlines():
        m = re.match(r"\s+(C\d+\.R\w+) FAILS at (\S+)", line)
        if m:
            fired.setdefault(m.group(1).split(".")[0], set()).add(m.group(1))
        m = re.match(r"ANALYSIS-ERROR property=(C\d+): (.*)", line)
        if m:
            fired.setdefault(m.group(1), set()).add("ANALYSIS-ERROR:" + m.group(2)[:60])
finally:
    run(["git", "-C", "/repo", "checkout", "--", "."])
print({k: sorted(v) for k, v in sorted(fired.items())})
