#!/usr/bin/env python3
"""Confirm a seeded breaking change in a scratch worktree and run the checks against it.
usage: seed_eval.py <out_dir> <k> [--keep-as <name>]"""
import json, os, re, shutil, subprocess, sys, tempfile

PY = "/venv/bin/python"


def run(cmd, cwd=None, env=None, timeout=900):
    p = subprocess.run(cmd, cwd=cwd, env=env, shell=isinstance(cmd, str), capture_output=True, text=True, timeout=timeout)
    return p.returncode, (p.stdout + p.stderr)


def demo_cmd(demo):
    src = open(demo).read()
    if "def test_" in src and "__main__" not in src:
        return [PY, "-m", "pytest", "-q", "-p", "no:cacheprovider", "-x", demo]
    return [PY, demo]


def main():
    out_dir, k = sys.argv[1], sys.argv[2]
    patch = os.path.join(out_dir, f"patch{k}.diff")
    demo = os.path.join(out_dir, f"demo{k}.py")
    meta = os.path.join(out_dir, f"meta{k}.json")
    res = {"patch": patch}
    wt = tempfile.mkdtemp(prefix="confirm_wt_")
    os.rmdir(wt)
    run(["git", "-C", "/repo", "worktree", "add", "-q", "--detach", wt, "HEAD"])
    try:
        env = dict(os.environ, PYTHONPATH=os.path.join(wt, "src"))
        d = os.path.join(wt, "_demo.py")
        shutil.copy(demo, d)
        rc0, o0 = run(demo_cmd(d), cwd=wt, env=env)
        res["demo_without_patch_rc"] = rc0
        rc, o = run(["git", "apply", patch], cwd=wt)
        res["apply_rc"] = rc
        if rc != 0:
            res["apply_err"] = o[-300:]
        else:
            rcs, os_ = run([PY, "-m", "pytest", "-q", "-p", "no:cacheprovider", "--timeout=900", "tests"], cwd=wt, env=env)
            m = re.search(r"(\d+) passed", os_)
            f = re.search(r"(\d+) failed", os_)
            res["suite_passed"] = int(m.group(1)) if m else None
            res["suite_failed"] = int(f.group(1)) if f else 0
            rc1, o1 = run(demo_cmd(d), cwd=wt, env=env)
            res["demo_with_patch_rc"] = rc1
            res["demo_with_patch_tail"] = o1.strip().splitlines()[-3:]
        res["confirmed"] = bool(rc == 0 and rc0 == 0 and res.get("suite_passed") == 143 and res.get("suite_failed") == 7
                                and res.get("demo_with_patch_rc", 0) != 0)
    finally:
        run(["git", "-C", "/repo", "worktree", "remove", "--force", wt])
        shutil.rmtree(wt, ignore_errors=True)
    # run the checks against /repo with the patch applied
    st, _ = run(["git", "-C", "/repo", "status", "--porcelain", "--untracked-files=no"])
    rc, o = run(["git", "-C", "/repo", "apply", patch])
    fired = {}
    if rc == 0:
        try:
            _rc, out = run([PY, "/verif/sa/check.py", "--all", "--no-evidence"])
            cur = None
            for line in out.splitlines():
                m = re.match(r"\[(C\d+)\]", line)
                if m:
                    cur = m.group(1)
                m = re.match(r"\s+(C\d+\.R\w+) FAILS at (\S+)", line)
                if m:
                    fired.setdefault(m.group(1).split(".")[0], []).append(f"{m.group(1)}@{m.group(2)}")
                m = re.match(r"ANALYSIS-ERROR property=(C\d+): (.*)", line)
                if m:
                    fired.setdefault(m.group(1), []).append("ANALYSIS-ERROR " + m.group(2)[:80])
        finally:
            run(["git", "-C", "/repo", "checkout", "--", "."])
    res["checks_fired"] = fired
    try:
        res["meta"] = {k_: str(v)[:300] for k_, v in json.load(open(meta)).items() if k_ in ("property", "summary", "needs_to_manifest")}
    except Exception:
        pass
    print(json.dumps(res, indent=1))


if __name__ == "__main__":
    main()
