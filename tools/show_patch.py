#!/usr/bin/env python3
"""Apply a patch to a scratch copy and print the failing obligations of one property. usage: show_patch.py <patch> <Cxx> [--keep]"""
import os, shutil, subprocess, sys, tempfile
sys.path.insert(0, "/verif")
patch, pid = sys.argv[1], sys.argv[2]
tmp = tempfile.mkdtemp(prefix="sa_show_")
os.makedirs(os.path.join(tmp, "src"))
shutil.copytree("/repo/src/datashard", os.path.join(tmp, "src", "datashard"), ignore=shutil.ignore_patterns("__pycache__"))
pr = subprocess.run(["git", "apply", "--unsafe-paths", "--directory=" + tmp, patch], cwd=tmp, capture_output=True, text=True)
if pr.returncode != 0:
    print("apply failed", pr.stderr); sys.exit(2)
p = subprocess.run(["/venv/bin/python", "/verif/sa/check.py", "-p", pid, "--no-evidence", "--repo", tmp], capture_output=True, text=True)
for l in (p.stdout + p.stderr).splitlines():
    if "FAILS" in l or "ERROR" in l or "Traceback" in l or l.startswith("  File") or "Error" in l:
        print(l[:700])
if "--keep" in sys.argv:
    print(tmp)
else:
    shutil.rmtree(tmp, ignore_errors=True)
