#!/usr/bin/env python3
"""Store the confirmed pairs of seed round 11 (feature work / hardening gone wrong + the feature done right).
usage: store_round11.py <round_dir> <confirm.jsonl> <first_run.txt> <today.txt>
first_run.txt / today.txt: lines `Cxx_out/patchK.diff {..}` / `Cxx_out/fixedK.diff {..}` from tools/eval_patches.py (before any rule
was changed for this round / on the final rules).  A seed whose target property does not fire today is stored with "open": true
(selftest skips it, DESIGN lists it as MISSED); a twin that still alarms goes to /verif/benign_open (false alarm, listed)."""
import ast, json, os, shutil, sys
rd, conf, first, today = sys.argv[1:5]
RNO, TWIN_RNO = 11, 10


def load(p):
    out = {}
    for l in open(p):
        l = l.strip()
        if " " not in l:
            continue
        k, rest = l.split(" ", 1)
        k = k.replace(rd.rstrip("/") + "/", "")
        try:
            out[k] = ast.literal_eval(rest)
        except Exception:
            out[k] = {"unparsed": rest[:200]}
    return out


confirm = {}
for l in open(conf):
    try:
        d = json.loads(l)
        confirm[d["id"]] = d
    except Exception:
        pass
fr, td = load(first), load(today)
OKS = "7 failed, 143 passed"
n_seed = n_open = n_twin = n_twin_open = 0
for i in range(1, 21):
    pid = f"C{i:02d}"
    for k in (1, 2, 3):
        out = os.path.join(rd, f"{pid}_out")
        c = confirm.get(f"{pid}-{k}")
        if not c:
            print("NO CONFIRMATION", pid, k)
            continue
        seed_ok = c.get("demo_without") == 0 and c.get("demo_with") not in (0, None) and OKS in c.get("suite", "")
        twin_ok = c.get("demo_with_twin") == 0 and OKS in c.get("suite_twin", "")
        try:
            am = json.load(open(os.path.join(out, f"meta{k}.json")))
        except Exception:
            am = {}
        sk, tk = f"{pid}_out/patch{k}.diff", f"{pid}_out/fixed{k}.diff"
        if seed_ok and sk in td:
            sid = f"{pid}-r{RNO}-{k}"
            dst = f"/verif/seeded/{sid}"
            os.makedirs(dst, exist_ok=True)
            shutil.copy(os.path.join(out, f"patch{k}.diff"), os.path.join(dst, "patch.diff"))
            shutil.copy(os.path.join(out, f"demo{k}.py"), os.path.join(dst, "demo.py"))
            caught = pid in td[sk] and not any(str(r).startswith(("ANALYSIS", "ENGINE")) for r in td[sk][pid])
            meta = {"id": sid, "property": pid, "round": RNO, "kind": am.get("mechanism_class"), "cover_story": am.get("cover_story"),
                    "slip": am.get("slip"), "summary": am.get("summary"), "needs_to_manifest": am.get("needs_to_manifest"),
                    "author": f"independent sub-agent given only the property text and a scratch worktree (round {RNO}: feature work / "
                              "performance / hardening / bookkeeping / closed-set extension gone wrong, each with the feature done right; "
                              "tools/prompts/seed_round11.txt)",
                    "confirmed_by_me": {"scratch_copy": "git archive of /repo HEAD under /tmp, removed afterwards",
                                        "suite_with_patch": "143 passed, 7 failed (the 7 pandas tests)",
                                        "demo_without_patch_exit": c["demo_without"], "demo_with_patch_exit": c["demo_with"],
                                        "demo_with_twin_exit": c.get("demo_with_twin"), "demo_tail": c.get("tail", "")[:400],
                                        "commands": ["tools/confirm_pair.sh <Cxx> <k>: git apply patch.diff; "
                                                     "PYTHONPATH=<copy>/src /venv/bin/python -m pytest -q -p no:cacheprovider --timeout=900 tests; "
                                                     "PYTHONPATH=<copy>/src /venv/bin/python demo.py (before the patch, with it, with the twin)"]},
                    "first_run_result": fr.get(sk, {}), "reported_today": td[sk]}
            if not caught:
                meta["open"] = True
                meta["open_reason"] = ("MISSED: the target property's check does not report this change today"
                                       + (f" (other properties do: {sorted(td[sk])})" if td[sk] else " (no check does)"))
                n_open += 1
            json.dump(meta, open(os.path.join(dst, "meta.json"), "w"), indent=1)
            n_seed += 1
        else:
            print("SEED NOT CONFIRMED", pid, k, {x: c.get(x) for x in ("demo_without", "demo_with", "suite", "apply")})
        if twin_ok and tk in td:
            bid = f"{pid}-r{TWIN_RNO}-{k}"
            silent = not td[tk]
            dst = f"/verif/{'benign' if silent else 'benign_open'}/{bid}"
            os.makedirs(dst, exist_ok=True)
            shutil.copy(os.path.join(out, f"fixed{k}.diff"), os.path.join(dst, "patch.diff"))
            meta = {"id": bid, "property": pid, "round": TWIN_RNO, "twin_of": f"seeded/{pid}-r{RNO}-{k}",
                    "cover_story": am.get("cover_story"), "correction": am.get("correction"),
                    "note": "NOT value-preserving: the twin ADDS the feature; the property still holds with it (the seed's demo passes)",
                    "author": "the independent sub-agent that wrote the seed: the same feature with its one slip corrected "
                              "(tools/prompts/seed_round11.txt)",
                    "confirmed_by_me": f"applied to a scratch copy of HEAD; suite: {c.get('suite_twin')}; the seed's demo passes (exit 0)",
                    "first_run_result": fr.get(tk, {}), "alarms_today": td[tk],
                    "status": "silent" if silent else "open-false-alarm"}
            json.dump(meta, open(os.path.join(dst, "meta.json"), "w"), indent=1)
            n_twin += 1
            n_twin_open += 0 if silent else 1
        else:
            print("TWIN NOT CONFIRMED", pid, k, {x: c.get(x) for x in ("demo_with_twin", "suite_twin", "apply_fixed")})
print(f"seeds stored {n_seed} (open / missed: {n_open}); twins stored {n_twin} (still alarming: {n_twin_open})")
