#!/usr/bin/env python3
"""Re-derive MANIFEST.json's per-check level text / note from the rule modules' EXPLANATION / NOT_DECIDED strings."""
import json, sys
sys.path.insert(0, "/verif")
from sa import rules as registry
PREFIX = ("Static analysis: decides, on every path of the current source, the structural necessary conditions the property rests on "
          "(listed per rule in the evidence file's coverage.rules); it does NOT decide the behavioural statement itself. ")
NOTE = ("Trusted base: hand-written raise/effect summaries of os/fcntl/tempfile/json/fastavro/pyarrow/boto3 primitives; no monkey-patching "
        "or third-party backends; function/class/parameter names are anchors (renaming one is an ANALYSIS-ERROR, exit 2). Not decided: ")
m = json.load(open("/verif/MANIFEST.json"))
for c in m["checks"]:
    mod = registry.load(c["property_id"])
    c["level_claimed"]["text"] = PREFIX + mod.EXPLANATION
    c["level_note"] = NOTE + mod.NOT_DECIDED
json.dump(m, open("/verif/MANIFEST.json", "w"), indent=1)
print("synced", len(m["checks"]))
