#!/usr/bin/env python3
"""Re-run all 20 quick checks against every seeded change (scratch copies, in parallel) and record in each meta.json which
rules fire today (`checks_that_fire`) and whether the target property's own check is among them."""
import glob, json, os, shutil, subprocess, sys, tempfile
from concurrent.futures import ProcessPoolExecutor
sys.path.insert(0, "/verif")


def one(mf):
    from sa import rules as registry
    from sa.core import Ctx, run_property
    from sa.model import AnalysisError
    d = os.path.dirname(mf)
    tmp = tempfile.mkdtemp(prefix="sa_seedmeta_")
    try:
        os.makedirs(os.path.join(tmp, "src"))
        shutil.copytree("/repo/src/datashard", os.path.join(tmp, "src", "datashard"), ignore=shutil.ignore_patterns("__pycache__"))
        pr = subprocess.run(["git", "apply", "--unsafe-paths", "--directory=" + tmp, os.path.join(d, "patch.diff")], cwd=tmp,
                            capture_output=True, text=True)
        if pr.returncode != 0:
            pr = subprocess.run(["patch", "-p1", "-s", "-i", os.path.join(d, "patch.diff")], cwd=tmp, capture_output=True, text=True)
        if pr.returncode != 0:
            return mf, None
        fired = {}
        ctx = Ctx(tmp)
        for pid, mod in registry.available().items():
            try:
                code, viol, _ = run_property(pid, "quick", tmp, mod.check, mod.EXPLANATION, mod.NOT_DECIDED, ctx=ctx,
                                             write_evidence=False, quiet=True)
                if code == 1:
                    fired[pid] = sorted({v.rule for v in viol})
            except AnalysisError as e:
                fired[pid] = ["ANALYSIS-ERROR " + str(e)[:80]]
        return mf, fired
    finally:
        shutil.rmtree(tmp, ignore_errors=True)


def main():
    metas = sorted(glob.glob("/verif/seeded/*/meta.json"))
    with ProcessPoolExecutor(max_workers=16) as ex:
        for mf, fired in ex.map(one, metas):
            m = json.load(open(mf))
            if fired is None:
                print("STALE", mf)
                continue
            m["checks_that_fire"] = fired
            tgt = fired.get(m["property"], [])
            m["caught_by_target_property"] = bool(tgt) and not all(x.startswith("ANALYSIS-ERROR") for x in tgt)
            json.dump(m, open(mf, "w"), indent=1)
            if not m["caught_by_target_property"]:
                print("NOT BY TARGET", m["id"], fired)
    print("updated", len(metas))


if __name__ == "__main__":
    main()
